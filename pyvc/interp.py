"""
pyvc.interp -- a symbolic interpreter over the Python AST of the *real* source.

The function bodies interpreted here are parsed from the files under the
repository's working tree on every run (see SourceIndex); classes, module
globals, tables and MRO are those of the imported real package.  Values are
Python objects or pyvc.sym symbolic wrappers; branching on a symbolic
condition asks the PathCtx for a decision (exploration is by re-execution).

What extraction drops: logging calls (X._debug/_info/_warning/_error/
_exception/_critical and ModuleLogger calls) are no-ops; exception message
strings built from symbolic values collapse to an opaque placeholder.
"""

import ast
import builtins
import inspect
import os
import sys
import types
import operator

import z3

from .sym import (Sym, SInt, SBool, SReal, SBuf, SOpaque, SIPStr, SDecStr, SOption, Blob, Unsupported, Infeasible, tz_of,
                  mk_int, mk_bool, mk_real, int_term, real_term, bool_term, is_sym,
                  is_intlike, is_reallike, bits_of, int_bitop, py_floordiv_term, py_mod_term,
                  buf_of, is_buflike, _mask_upto)
from . import bufops
from . import bitfield

# ----------------------------------------------------------------------------
#   control-flow exceptions
# ----------------------------------------------------------------------------

class ReturnEx(Exception):
    def __init__(self, value):
        self.value = value

class BreakEx(Exception):
    pass

class ContinueEx(Exception):
    pass

class PyRaise(Exception):
    """a Python exception raised by the interpreted program"""
    def __init__(self, exc):
        Exception.__init__(self, repr(exc))
        self.exc = exc

# ----------------------------------------------------------------------------
#   source index: function object -> AST of the real source
# ----------------------------------------------------------------------------

class SourceIndex(object):

    def __init__(self):
        self.files = {}     # filename -> (tree, {lineno: [nodes]})

    def load(self, filename):
        if filename in self.files:
            return self.files[filename]
        with open(filename, 'r') as f:
            src = f.read()
        tree = ast.parse(src, filename)
        bylines = {}
        for node in ast.walk(tree):
            if isinstance(node, (ast.FunctionDef, ast.Lambda, ast.AsyncFunctionDef)):
                lines = {node.lineno}
                for d in getattr(node, 'decorator_list', []):
                    lines.add(d.lineno)
                for ln in lines:
                    bylines.setdefault(ln, []).append(node)
        self.files[filename] = (tree, bylines)
        return self.files[filename]

    def node_for(self, func):
        code = func.__code__
        fn = code.co_filename
        if not os.path.isfile(fn):
            raise Unsupported("no source for %r" % (func,))
        tree, bylines = self.load(fn)
        cands = bylines.get(code.co_firstlineno, [])
        name = code.co_name
        for n in cands:
            if isinstance(n, ast.Lambda) and name == '<lambda>':
                return n
            if not isinstance(n, ast.Lambda) and n.name == name:
                return n
        raise Unsupported("cannot locate source of %s at %s:%d" % (name, fn, code.co_firstlineno))

SOURCES = SourceIndex()

# ----------------------------------------------------------------------------
#   callables created by the interpreter
# ----------------------------------------------------------------------------

def identity_key(k):
    """an object hashed and compared by identity: as a dict key it is concrete whatever its fields hold"""
    return (not isinstance(k, (Sym, tuple, list, dict, set, frozenset)) and type(k).__eq__ is object.__eq__ and type(k).__hash__ is object.__hash__)

class BoundMethod(object):
    """a python function bound to a receiver, found in class `defclass`"""
    __slots__ = ('func', 'self', 'defclass')
    def __init__(self, func, self_, defclass):
        self.func = func
        self.self = self_
        self.defclass = defclass
    def __repr__(self):
        return "<BoundMethod %s of %s>" % (getattr(self.func, '__qualname__', self.func), type(self.self).__name__)
    # bound methods compare equal when function and receiver are the same (list.remove(obj.method) relies on it)
    def __eq__(self, other):
        if isinstance(other, BoundMethod):
            return other.func is self.func and other.self is self.self
        if isinstance(other, types.MethodType):
            return other.__func__ is self.func and other.__self__ is self.self
        return NotImplemented
    def __ne__(self, other):
        r = self.__eq__(other)
        return r if r is NotImplemented else not r
    def __hash__(self):
        return hash((id(self.func), id(self.self)))
    @property
    def __self__(self):
        return self.self
    @property
    def __func__(self):
        return self.func

class Closure(object):
    """a def/lambda evaluated by the interpreter"""
    def __init__(self, node, frame, name):
        self.node = node
        self.frame = frame      # defining frame (lexical parent)
        self.__name__ = name
        self.defaults = []
        self.kw_defaults = {}
    def __repr__(self):
        return "<Closure %s>" % self.__name__

class SuperProxy(object):
    __slots__ = ('cls', 'obj')
    def __init__(self, cls, obj):
        self.cls = cls
        self.obj = obj

class ModelMethod(object):
    """a method of a symbolic value, implemented by a model"""
    __slots__ = ('fn', 'self')
    def __init__(self, fn, self_):
        self.fn = fn
        self.self = self_

class Frame(object):
    def __init__(self, func=None, globs=None, parent=None, defclass=None, freevars=None):
        self.locals = {}
        self.func = func
        self.globals = globs if globs is not None else {}
        self.parent = parent            # lexical parent frame (for closures)
        self.defclass = defclass
        self.freevars = freevars or {}
        self.global_names = set()
        self.nonlocal_names = set()
        self.self_obj = None

_LOG_METHODS = {'_debug', '_info', '_warning', '_error', '_exception', '_critical', '_fatal'}

def _is_logger_attr(node):
    """X._debug(...) / _log.debug(...) style calls"""
    if isinstance(node, ast.Attribute):
        if node.attr in _LOG_METHODS:
            return True
        if isinstance(node.value, ast.Name) and node.value.id in ('_log', '_statelog', '_logger') and \
                node.attr in ('debug', 'info', 'warning', 'error', 'exception', 'critical'):
            return True
    return False

SYM_PLACEHOLDER_STR = "<symbolic>"

# python type seen by isinstance / type() for symbolic wrappers
def pytype_of(v):
    if isinstance(v, SOption):
        raise Unsupported("type of an unresolved optional value")
    if isinstance(v, SInt):
        return int
    if isinstance(v, SBool):
        return bool
    if isinstance(v, SReal):
        return float
    if isinstance(v, SBuf):
        return bytearray if v.mutable else bytes
    if isinstance(v, SOpaque):
        return v.pytype
    if isinstance(v, (SIPStr, SDecStr)):
        return str
    return type(v)

class Config(object):
    """engine configuration shared by all paths of one verification task"""
    def __init__(self, repo_roots, verif_roots=()):
        self.repo_roots = tuple(os.path.realpath(r) for r in repo_roots)
        self.verif_roots = tuple(os.path.realpath(r) for r in verif_roots)
        self.contracts = {}         # id(function) -> contract object (with .apply)
        self.contract_funcs = {}    # id(function) -> function (keep alive)
        self.target = None          # function currently verified against its body
        self.models = {}            # id(callable) -> model function(interp, args, kwargs)
        self.type_models = {}       # python type -> {method name: model}
        self.max_depth = 60
        self.inlined = set()        # qualnames of repo functions interpreted without a contract
        self.used_contracts = set()
        self.global_overrides = {}  # (module name, global name) -> initial value factory
        self._file_cache = {}
        self._class_cache = {}

    def interpretable(self, func):
        code = getattr(func, '__code__', None)
        if code is None:
            return False
        r = self._file_cache.get(code.co_filename)
        if r is None:
            fn = os.path.realpath(code.co_filename)
            r = fn.startswith(self.repo_roots) or fn.startswith(self.verif_roots)
            self._file_cache[code.co_filename] = r
        return r

    def is_repo_class(self, cls):
        r = self._class_cache.get(cls)
        if r is not None:
            return r
        mod = sys.modules.get(getattr(cls, '__module__', None))
        fn = getattr(mod, '__file__', None)
        if not fn:
            r = False
        else:
            fn = os.path.realpath(fn)
            r = fn.startswith(self.repo_roots) or fn.startswith(self.verif_roots)
        try:
            self._class_cache[cls] = r
        except TypeError:
            pass
        return r


def has_sym(v, _seen=None, _depth=0):
    """does the value contain symbolic parts (deep)?"""
    if isinstance(v, Sym):
        return True
    if v is None or isinstance(v, (int, float, str, bytes, bytearray, type, types.FunctionType, types.ModuleType)):
        return False
    if _depth > 6:
        return False
    if _seen is None:
        _seen = set()
    if id(v) in _seen:
        return False
    _seen.add(id(v))
    if isinstance(v, (list, tuple, set, frozenset)):
        return any(has_sym(x, _seen, _depth + 1) for x in v)
    if isinstance(v, dict):
        return any(has_sym(x, _seen, _depth + 1) for x in v.values()) or any(isinstance(k, Sym) for k in v.keys())
    d = getattr(v, '__dict__', None)
    if isinstance(d, dict):
        return any(has_sym(x, _seen, _depth + 1) for x in d.values())
    return False


class Interp(object):

    def __init__(self, ctx, cfg):
        self.ctx = ctx
        self.cfg = cfg
        self.depth = 0
        self.goverlay = {}      # (id(globals dict), name) -> value
        self.call_stack = []
        from . import models
        self.models = models

    # ------------------------------------------------------------------
    #   truth, equality, arithmetic
    # ------------------------------------------------------------------

    def force(self, v):
        """resolve a lazily-nullable value: decide whether it is None"""
        while isinstance(v, SOption):
            isn = v.isnone
            if isinstance(isn, SBool):
                isn = self.ctx.decide(isn.t)
            v = None if isn else v.value
        return v

    def truth_term(self, v):
        """python truthiness as bool or SBool, without branching"""
        v = self.force(v)
        if isinstance(v, SBool):
            return v
        if isinstance(v, SInt):
            return mk_bool(z3.simplify(v.t != 0))
        if isinstance(v, SReal):
            return mk_bool(z3.simplify(v.t != 0))
        if isinstance(v, SBuf):
            n = v.length()
            if isinstance(n, int):
                return n != 0
            return mk_bool(z3.simplify(n != 0))
        if isinstance(v, (SIPStr, SDecStr)):
            return True
        if isinstance(v, SOpaque):
            raise Unsupported("truth value of opaque value")
        if v is None or isinstance(v, (bool, int, float, str, bytes, bytearray, list, tuple, dict, set, frozenset)):
            return bool(v)
        # instances: __bool__ / __len__ defined in interpretable code?
        cls = type(v)
        for name in ('__bool__', '__len__'):
            f = self.lookup_class_attr(cls, name)
            if f is not None and isinstance(f[0], types.FunctionType) and self.cfg.interpretable(f[0]):
                r = self.call_function(f[0], [v], {}, defclass=f[1])
                return self.truth_term(r)
        return bool(v)

    def truth(self, v, label=None):
        t = self.truth_term(v)
        if isinstance(t, bool):
            return t
        return self.ctx.decide(t.t, label)

    def eq(self, a, b):
        """a == b as bool or SBool"""
        a, b = self.force(a), self.force(b)
        if a is b and not isinstance(a, (SReal, float)):
            return True
        if isinstance(a, (BoundMethod, types.MethodType)) or isinstance(b, (BoundMethod, types.MethodType)):
            # bound methods: same function, same receiver (whichever way they are represented)
            if not (isinstance(a, (BoundMethod, types.MethodType)) and isinstance(b, (BoundMethod, types.MethodType))):
                return False
            fa, ra = (a.func, a.self) if isinstance(a, BoundMethod) else (a.__func__, a.__self__)
            fb, rb = (b.func, b.self) if isinstance(b, BoundMethod) else (b.__func__, b.__self__)
            return fa is fb and ra is rb
        sa, sb = isinstance(a, Sym), isinstance(b, Sym)
        if sa or sb:
            if a is None or b is None:
                return False
            if isinstance(a, SBuf) or isinstance(b, SBuf):
                ba, bb = buf_of(a), buf_of(b)
                if ba is None or bb is None:
                    return False
                return bufops.equal(self.ctx, ba, bb)
            if isinstance(a, SDecStr) or isinstance(b, SDecStr):
                va = a.value if isinstance(a, SDecStr) else (int(a) if isinstance(a, str) and a.isdigit() and (a == '0' or not a.startswith('0')) else None)
                vb = b.value if isinstance(b, SDecStr) else (int(b) if isinstance(b, str) and b.isdigit() and (b == '0' or not b.startswith('0')) else None)
                if va is None or vb is None:
                    return False
                return self.eq(va, vb)
            if isinstance(a, SIPStr) or isinstance(b, SIPStr):
                oa = a.octets if isinstance(a, SIPStr) else self.models.ip_octets(b)
                ob = b.octets if isinstance(b, SIPStr) else self.models.ip_octets(a)
                if oa is None or ob is None:
                    return False
                acc = True
                for x, y in zip(oa, ob):
                    acc = self.and_(acc, self.eq(x, y))
                return acc
            if isinstance(a, SOpaque) or isinstance(b, SOpaque):
                if isinstance(a, SOpaque) and isinstance(b, SOpaque) and a.t.sort() == b.t.sort():
                    return mk_bool(z3.simplify(a.t == b.t))
                ot, other = (a, b) if isinstance(a, SOpaque) else (b, a)
                const = self.models.opaque_const(self, ot, other)
                if const is not None:
                    return mk_bool(z3.simplify(ot.t == const))
                return False
            if (is_reallike(a) or is_reallike(b)):
                ra, rb = real_term(a), real_term(b)
                if ra is None or rb is None:
                    return False
                return mk_bool(z3.simplify(ra == rb))
            ta, tb = int_term(a), int_term(b)
            if ta is None or tb is None:
                return False        # int vs str etc.
            return mk_bool(z3.simplify(ta == tb))
        # both concrete at top level
        if isinstance(a, (tuple, list)) and isinstance(b, (tuple, list)) and type(a) is type(b):
            if has_sym(a) or has_sym(b):
                if len(a) != len(b):
                    return False
                acc = True
                for x, y in zip(a, b):
                    r = self.eq(x, y)
                    if r is False:
                        return False
                    acc = self.and_(acc, r)
                return acc
            # fall through: concrete containers may hold repo instances
        # instance with __eq__ defined in interpretable code
        for (x, y) in ((a, b), (b, a)):
            f = self.lookup_class_attr(type(x), '__eq__')
            if f is not None and isinstance(f[0], types.FunctionType) and self.cfg.interpretable(f[0]):
                r = self.call_function(f[0], [x, y], {}, defclass=f[1])
                if r is NotImplemented:
                    continue
                return r
        if isinstance(a, (tuple, list)) and isinstance(b, (tuple, list)) and type(a) is type(b):
            if len(a) != len(b):
                return False
            acc = True
            for x, y in zip(a, b):
                r = self.eq(x, y)
                if r is False:
                    return False
                acc = self.and_(acc, r)
            return acc
        try:
            return a == b
        except Unsupported:
            raise
        except Exception as e:
            raise PyRaise(e)

    def and_(self, a, b):
        if a is True:
            return b
        if b is True:
            return a
        if a is False or b is False:
            return False
        return mk_bool(z3.simplify(z3.And(bool_term(a), bool_term(b))))

    def or_(self, a, b):
        if a is False:
            return b
        if b is False:
            return a
        if a is True or b is True:
            return True
        return mk_bool(z3.simplify(z3.Or(bool_term(a), bool_term(b))))

    def not_(self, a):
        t = self.truth_term(a)
        if isinstance(t, bool):
            return not t
        return mk_bool(z3.simplify(z3.Not(t.t)))

    def binop(self, op, a, b):
        a, b = self.force(a), self.force(b)
        if not isinstance(a, Sym) and not isinstance(b, Sym):
            # concrete (may still be containers holding syms; python ops on
            # containers do not look inside for + and *)
            f = _BINOPS.get(type(op))
            # user-defined operators on repo instances
            if self._is_repo_instance(a) or self._is_repo_instance(b):
                r = self._binop_dunder(op, a, b)
                if r is not NotImplemented:
                    return r
            if isinstance(op, ast.Mod) and isinstance(a, str) and has_sym(b):
                return SYM_PLACEHOLDER_STR
            try:
                return f(a, b)
            except Unsupported:
                raise
            except Exception as e:
                raise PyRaise(e)
        # buffers
        if isinstance(a, SBuf) or isinstance(b, SBuf):
            if isinstance(op, ast.Add):
                ba, bb = buf_of(a), buf_of(b)
                if ba is None or bb is None:
                    raise PyRaise(TypeError("can't concat"))
                mutable = ba.mutable if isinstance(a, SBuf) else isinstance(a, bytearray)
                return bufops.concat(ba, bb, mutable)
            if isinstance(op, ast.Mult):
                raise Unsupported("buffer repetition")
            if isinstance(op, ast.Mod) and isinstance(a, str):
                return SYM_PLACEHOLDER_STR
            raise PyRaise(TypeError("unsupported operand for buffer"))
        if isinstance(a, str) and isinstance(op, ast.Mod):
            return SYM_PLACEHOLDER_STR
        if isinstance(a, (str, list, tuple)) or isinstance(b, (str, list, tuple)):
            # sequence repetition by a symbolic count etc.
            raise Unsupported("sequence op with symbolic operand")
        if isinstance(a, SOpaque) or isinstance(b, SOpaque):
            raise Unsupported("arithmetic on opaque value")
        # numeric
        if is_reallike(a) or is_reallike(b) or isinstance(op, ast.Div):
            return self._real_binop(op, a, b)
        if a is None or b is None:
            raise PyRaise(TypeError("unsupported operand type(s): NoneType"))
        ta, tb = int_term(a), int_term(b)
        if ta is None or tb is None:
            raise PyRaise(TypeError("unsupported operand type(s)"))
        ba_, bb_ = bits_of(a), bits_of(b)
        opname = _OPNAMES.get(type(op))
        if opname is not None:
            if opname in ('//', '%') and isinstance(b, int) and b == 0:
                raise PyRaise(ZeroDivisionError("integer division or modulo by zero"))
            r = bitfield.try_binop(opname, a, b)
            if r is not None:
                return r
        if isinstance(op, ast.Add):
            bits = None
            if ba_ is not None and bb_ is not None:
                bits = (ba_ | bb_) if (ba_ & bb_) == 0 else _mask_upto(ba_ + bb_)
            return mk_int(z3.simplify(ta + tb), bits)
        if isinstance(op, ast.Sub):
            return mk_int(z3.simplify(ta - tb))
        if isinstance(op, ast.Mult):
            bits = None
            if ba_ is not None and bb_ is not None:
                bits = _mask_upto(ba_ * bb_)
            return mk_int(z3.simplify(ta * tb), bits)
        if isinstance(op, (ast.FloorDiv, ast.Mod)):
            if isinstance(b, int):
                if b == 0:
                    raise PyRaise(ZeroDivisionError("integer division or modulo by zero"))
            else:
                if self.ctx.decide(tb == 0):
                    raise PyRaise(ZeroDivisionError("integer division or modulo by zero"))
            if isinstance(op, ast.FloorDiv):
                bits = None
                if ba_ is not None and isinstance(b, int) and b > 0:
                    bits = _mask_upto(ba_ // b)
                return mk_int(z3.simplify(py_floordiv_term(ta, tb)), bits)
            bits = None
            if isinstance(b, int) and b > 0:
                bits = _mask_upto(b - 1)
                if ba_ is not None:
                    bits = bits & _mask_upto(ba_)
            return mk_int(z3.simplify(py_mod_term(ta, tb)), bits)
        if isinstance(op, (ast.LShift, ast.RShift)) and not isinstance(b, int):
            if int_term(b) is not None and self.ctx.decide(int_term(b) < 0):
                raise PyRaise(ValueError("negative shift count"))
            b = self.concrete_int(b, 64)
            if isinstance(a, int):
                return (a << b) if isinstance(op, ast.LShift) else (a >> b)
            r = bitfield.try_binop('<<' if isinstance(op, ast.LShift) else '>>', a, b)
            if r is not None:
                return r
        if isinstance(op, ast.LShift):
            if not isinstance(b, int):
                raise Unsupported("shift by symbolic amount")
            if b < 0:
                raise PyRaise(ValueError("negative shift count"))
            bits = (ba_ << b) if ba_ is not None else None
            return mk_int(z3.simplify(ta * z3.IntVal(1 << b)), bits, tz_of(a) + b)
        if isinstance(op, ast.RShift):
            if not isinstance(b, int):
                raise Unsupported("shift by symbolic amount")
            if b < 0:
                raise PyRaise(ValueError("negative shift count"))
            bits = (ba_ >> b) if ba_ is not None else None
            return mk_int(z3.simplify(ta / z3.IntVal(1 << b)), bits)
        if isinstance(op, ast.BitAnd):
            return int_bitop('&', a, b)
        if isinstance(op, ast.BitOr):
            return int_bitop('|', a, b)
        if isinstance(op, ast.BitXor):
            return int_bitop('^', a, b)
        if isinstance(op, ast.Pow):
            if not isinstance(b, int):
                b = self.concrete_int(b)
                if isinstance(a, int):
                    return a ** b
            if isinstance(b, int) and 0 <= b <= 4:
                r = z3.IntVal(1)
                for _ in range(b):
                    r = r * ta
                return mk_int(z3.simplify(r))
            raise Unsupported("symbolic power")
        raise Unsupported("binary operator %s" % type(op).__name__)

    def _real_binop(self, op, a, b):
        ra, rb = real_term(a), real_term(b)
        if ra is None or rb is None:
            raise PyRaise(TypeError("unsupported operand type(s) for real arithmetic"))
        self.ctx.assumptions.add("float arithmetic treated as exact real arithmetic")
        if isinstance(op, ast.Add):
            return mk_real(z3.simplify(ra + rb))
        if isinstance(op, ast.Sub):
            return mk_real(z3.simplify(ra - rb))
        if isinstance(op, ast.Mult):
            return mk_real(z3.simplify(ra * rb))
        if isinstance(op, ast.Div):
            if self.ctx.decide(rb == 0):
                raise PyRaise(ZeroDivisionError("division by zero"))
            return mk_real(z3.simplify(ra / rb))
        if isinstance(op, (ast.Mod, ast.FloorDiv)):
            if self.ctx.decide(rb == 0):
                raise PyRaise(ZeroDivisionError("float modulo"))
            # python: a % b has the sign of b; floor((a/b))
            q = z3.ToReal(z3.ToInt(ra / rb))        # ToInt is floor in z3
            if isinstance(op, ast.FloorDiv):
                return mk_real(z3.simplify(q))
            return mk_real(z3.simplify(ra - rb * q))
        raise Unsupported("real operator %s" % type(op).__name__)

    def _binop_dunder(self, op, a, b):
        names = _DUNDER.get(type(op))
        if not names:
            return NotImplemented
        f = self.lookup_class_attr(type(a), names[0])
        if f is not None and isinstance(f[0], types.FunctionType) and self.cfg.interpretable(f[0]):
            r = self.call_function(f[0], [a, b], {}, defclass=f[1])
            if r is not NotImplemented:
                return r
        f = self.lookup_class_attr(type(b), names[1])
        if f is not None and isinstance(f[0], types.FunctionType) and self.cfg.interpretable(f[0]):
            r = self.call_function(f[0], [b, a], {}, defclass=f[1])
            if r is not NotImplemented:
                return r
        return NotImplemented

    def compare(self, op, a, b):
        if isinstance(op, (ast.Is, ast.IsNot)):
            r = self.is_(a, b)
            return r if isinstance(op, ast.Is) else (not r)
        a, b = self.force(a), self.force(b)
        if isinstance(op, ast.Eq):
            return self.eq(a, b)
        if isinstance(op, ast.NotEq):
            # repo classes may define __ne__
            if self._is_repo_instance(a):
                f = self.lookup_class_attr(type(a), '__ne__')
                if f is not None and isinstance(f[0], types.FunctionType) and self.cfg.interpretable(f[0]):
                    return self.call_function(f[0], [a, b], {}, defclass=f[1])
            return self.not_(self.eq(a, b))
        if isinstance(op, ast.Is):
            return self.is_(a, b)
        if isinstance(op, ast.IsNot):
            return not self.is_(a, b)
        if isinstance(op, ast.In):
            return self.contains(b, a)
        if isinstance(op, ast.NotIn):
            return self.not_(self.contains(b, a))
        # ordering
        if not isinstance(a, Sym) and not isinstance(b, Sym):
            if isinstance(a, (tuple, list)) and (has_sym(a) or has_sym(b)):
                return self._lex_compare(op, a, b)
            if self._is_repo_instance(a) or self._is_repo_instance(b):
                nm = _CMP_DUNDER[type(op)]
                for (x, y, n) in ((a, b, nm[0]), (b, a, nm[1])):
                    f = self.lookup_class_attr(type(x), n)
                    if f is not None and isinstance(f[0], types.FunctionType) and self.cfg.interpretable(f[0]):
                        r = self.call_function(f[0], [x, y], {}, defclass=f[1])
                        if r is not NotImplemented:
                            return r
            try:
                return _CMPOPS[type(op)](a, b)
            except Unsupported:
                raise
            except Exception as e:
                raise PyRaise(e)
        if a is None or b is None or isinstance(a, str) or isinstance(b, str):
            raise PyRaise(TypeError("ordering not supported between these types"))
        if isinstance(a, (SBuf, SOpaque)) or isinstance(b, (SBuf, SOpaque)):
            raise Unsupported("ordering on buffers/opaque values")
        if is_reallike(a) or is_reallike(b):
            ta, tb = real_term(a), real_term(b)
        else:
            ta, tb = int_term(a), int_term(b)
        if ta is None or tb is None:
            raise PyRaise(TypeError("ordering not supported between these types"))
        if isinstance(op, ast.Lt):
            return mk_bool(z3.simplify(ta < tb))
        if isinstance(op, ast.LtE):
            return mk_bool(z3.simplify(ta <= tb))
        if isinstance(op, ast.Gt):
            return mk_bool(z3.simplify(ta > tb))
        if isinstance(op, ast.GtE):
            return mk_bool(z3.simplify(ta >= tb))
        raise Unsupported("comparison %s" % type(op).__name__)

    def _lex_compare(self, op, a, b):
        """lexicographic ordering of tuples/lists with symbolic members"""
        # all-numeric members: one boolean term, no forking
        if len(a) == len(b) and all((is_intlike(x) or is_reallike(x)) and not isinstance(x, bool) for x in list(a) + list(b)):
            use_real = any(is_reallike(x) for x in list(a) + list(b))
            term = (lambda v: real_term(v)) if use_real else (lambda v: int_term(v))
            less = isinstance(op, (ast.Lt, ast.LtE))
            acc = z3.BoolVal(isinstance(op, (ast.LtE, ast.GtE)))        # all members equal
            for x, y in reversed(list(zip(a, b))):
                tx, ty = term(x), term(y)
                acc = z3.Or(tx < ty if less else tx > ty, z3.And(tx == ty, acc))
            return mk_bool(z3.simplify(acc))
        strict = isinstance(op, (ast.Lt, ast.Gt))
        lt_op = ast.Lt() if isinstance(op, (ast.Lt, ast.LtE)) else ast.Gt()
        n = min(len(a), len(b))
        for i in range(n):
            e = self.eq(a[i], b[i])
            if self.truth(e):
                continue
            return self.compare(lt_op, a[i], b[i])
        # common prefix equal
        if len(a) == len(b):
            return not strict
        shorter_first = len(a) < len(b)
        return shorter_first if isinstance(op, (ast.Lt, ast.LtE)) else not shorter_first

    def is_(self, a, b):
        if a is b:
            return True
        if isinstance(a, SOption) and b is None:
            return self.truth(a.isnone) if isinstance(a.isnone, SBool) else bool(a.isnone)
        if isinstance(b, SOption) and a is None:
            return self.truth(b.isnone) if isinstance(b.isnone, SBool) else bool(b.isnone)
        a, b = self.force(a), self.force(b)
        if a is b:
            return True
        # small ints / bools / None compared by identity in the target code
        if isinstance(a, Sym) or isinstance(b, Sym):
            if isinstance(a, SBool) and isinstance(b, bool):
                return self.truth(mk_bool(a.t == b))
            if isinstance(b, SBool) and isinstance(a, bool):
                return self.truth(mk_bool(b.t == a))
            if isinstance(a, SOpaque) and isinstance(b, SOpaque):
                return self.truth(self.eq(a, b))
            return False
        if isinstance(a, (int, str)) and isinstance(b, (int, str)) and type(a) is type(b):
            return a == b      # interning is an implementation detail; the target code uses `is` only on None/bools/classes
        return False

    def contains(self, container, x):
        if isinstance(container, SBuf):
            raise Unsupported("`in` on symbolic buffer")
        if isinstance(container, Sym):
            raise Unsupported("`in` on symbolic value")
        if isinstance(container, (list, tuple)):
            acc = False
            for e in container:
                r = self.eq(e, x)
                if r is True:
                    return True
                acc = self.or_(acc, r)
            return acc
        if isinstance(container, (dict, set, frozenset)) or type(container).__name__ in ('dict_keys', 'dict_values'):
            if isinstance(x, Sym) or has_sym(x):
                acc = False
                for k in list(container):
                    r = self.eq(k, x)
                    if r is True:
                        return True
                    acc = self.or_(acc, r)
                return acc
            try:
                return x in container
            except TypeError as e:
                raise PyRaise(e)
        if isinstance(container, (str, bytes, bytearray, range)):
            if isinstance(x, Sym):
                if isinstance(container, range) and is_intlike(x):
                    acc = False
                    for k in container:
                        acc = self.or_(acc, self.eq(k, x))
                    return acc
                raise Unsupported("symbolic `in` on %s" % type(container).__name__)
            try:
                return x in container
            except TypeError as e:
                raise PyRaise(e)
        f = self.lookup_class_attr(type(container), '__contains__')
        if f is not None and isinstance(f[0], types.FunctionType) and self.cfg.interpretable(f[0]):
            return self.call_function(f[0], [container, x], {}, defclass=f[1])
        f = self.lookup_class_attr(type(container), '__iter__')
        if f is not None and isinstance(f[0], types.FunctionType) and self.cfg.interpretable(f[0]):
            return self.contains(self.iterate(container), x)
        try:
            return x in container
        except Exception as e:
            raise PyRaise(e)

    # ------------------------------------------------------------------
    #   attribute access
    # ------------------------------------------------------------------

    def _is_repo_instance(self, v):
        if isinstance(v, (Sym, type, types.ModuleType, types.FunctionType)) or v is None:
            return False
        if isinstance(v, (int, float, str, bytes, bytearray, list, tuple, dict, set, frozenset)) and type(v).__module__ == 'builtins':
            return False
        return self.cfg.is_repo_class(type(v))

    def lookup_class_attr(self, cls, name):
        """(raw attribute from a class __dict__ along the MRO, class where found) or None"""
        try:
            mro = cls.__mro__
        except AttributeError:
            return None
        for k in mro:
            d = k.__dict__
            if name in d:
                return d[name], k
        return None

    def getattr(self, obj, name, default=None, has_default=False):
        try:
            return self._getattr(obj, name)
        except PyRaise as e:
            if has_default and isinstance(e.exc, AttributeError):
                return default
            raise

    def _getattr(self, obj, name):
        obj = self.force(obj)
        if isinstance(obj, Sym):
            m = self.models.sym_method(self, obj, name)
            if m is None:
                raise PyRaise(AttributeError("%s has no attribute %r" % (pytype_of(obj).__name__, name)))
            return m
        if isinstance(obj, SuperProxy):
            return self._super_getattr(obj, name)
        if isinstance(obj, BoundMethod):
            if name == '__self__':
                return obj.self
            if name == '__func__':
                return obj.func
            try:
                return getattr(obj.func, name)
            except AttributeError as e:
                raise PyRaise(AttributeError(str(e)))
        if isinstance(obj, Closure):
            if name == '__name__':
                return obj.__name__
            raise PyRaise(AttributeError(name))
        if isinstance(obj, type):
            return self._class_getattr(obj, name)
        if isinstance(obj, types.ModuleType):
            key = (id(obj.__dict__), name)
            if key in self.goverlay:
                return self.goverlay[key]
            try:
                return getattr(obj, name)
            except AttributeError as e:
                raise PyRaise(e)
        if self._is_repo_instance(obj):
            return self._instance_getattr(obj, name)
        # native object
        tm = self.cfg.type_models.get(type(obj))
        if tm and name in tm:
            return ModelMethod(tm[name], obj)
        try:
            return getattr(obj, name)
        except AttributeError as e:
            raise PyRaise(e)

    def _class_getattr(self, cls, name):
        found = self.lookup_class_attr(cls, name)
        if found is None:
            try:
                return getattr(cls, name)      # metaclass attributes, __name__, ...
            except AttributeError as e:
                raise PyRaise(e)
        raw, k = found
        if isinstance(raw, classmethod):
            return BoundMethod(raw.__func__, cls, k)
        if isinstance(raw, staticmethod):
            return raw.__func__
        if isinstance(raw, types.FunctionType):
            return raw
        if isinstance(raw, property):
            return raw
        try:
            return getattr(cls, name)
        except AttributeError as e:
            raise PyRaise(e)

    def _instance_getattr(self, obj, name):
        cls = type(obj)
        if name == '__class__':
            return cls
        if name == '__dict__':
            return obj.__dict__
        found = self.lookup_class_attr(cls, name)
        if found is not None:
            raw, k = found
            if isinstance(raw, property):
                if raw.fget is None:
                    raise PyRaise(AttributeError("unreadable attribute"))
                return self.call_function(raw.fget, [obj], {}, defclass=k)
        d = getattr(obj, '__dict__', None)
        if d is not None and name in d:
            return d[name]
        if found is not None:
            raw, k = found
            if isinstance(raw, types.FunctionType):
                return BoundMethod(raw, obj, k)
            if isinstance(raw, classmethod):
                return BoundMethod(raw.__func__, cls, k)
            if isinstance(raw, staticmethod):
                return raw.__func__
            if hasattr(raw, '__get__') and not isinstance(raw, type):
                try:
                    return raw.__get__(obj, cls)
                except AttributeError as e:
                    raise PyRaise(e)
            return raw
        ga = self.lookup_class_attr(cls, '__getattr__')
        if ga is not None and isinstance(ga[0], types.FunctionType):
            return self.call_function(ga[0], [obj, name], {}, defclass=ga[1])
        raise PyRaise(AttributeError("%r object has no attribute %r" % (cls.__name__, name)))

    def _super_getattr(self, sp, name):
        obj = sp.obj
        start = obj if isinstance(obj, type) else type(obj)
        mro = start.__mro__
        try:
            i = mro.index(sp.cls)
        except ValueError:
            raise PyRaise(TypeError("super(type, obj): obj must be an instance or subtype of type"))
        for k in mro[i + 1:]:
            if name in k.__dict__:
                raw = k.__dict__[name]
                if isinstance(raw, types.FunctionType):
                    return BoundMethod(raw, obj, k)
                if isinstance(raw, classmethod):
                    return BoundMethod(raw.__func__, start, k)
                if isinstance(raw, staticmethod):
                    return raw.__func__
                if isinstance(raw, property):
                    return self.call_function(raw.fget, [obj], {}, defclass=k)
                # slot wrapper such as object.__init__
                if hasattr(raw, '__get__'):
                    return NativeBound(raw, obj, k)
                return raw
        raise PyRaise(AttributeError("'super' object has no attribute %r" % name))

    def setattr(self, obj, name, value):
        obj = self.force(obj)
        if isinstance(obj, Sym):
            raise PyRaise(AttributeError("can't set attribute on %s" % pytype_of(obj).__name__))
        if isinstance(obj, types.ModuleType):
            self.goverlay[(id(obj.__dict__), name)] = value
            return
        if isinstance(obj, type):
            if self.cfg.is_repo_class(obj):
                raise Unsupported("assignment to class attribute %s.%s" % (obj.__name__, name))
            raise PyRaise(TypeError("can't set attributes of built-in/extension type"))
        if self._is_repo_instance(obj):
            cls = type(obj)
            sa = self.lookup_class_attr(cls, '__setattr__')
            if sa is not None and isinstance(sa[0], types.FunctionType) and not getattr(self, '_in_setattr', None) == (id(obj), name):
                return self.call_function(sa[0], [obj, name, value], {}, defclass=sa[1])
            found = self.lookup_class_attr(cls, name)
            if found is not None and isinstance(found[0], property):
                if found[0].fset is None:
                    raise PyRaise(AttributeError("can't set attribute"))
                return self.call_function(found[0].fset, [obj, value], {}, defclass=found[1])
            obj.__dict__[name] = value
            return
        try:
            setattr(obj, name, value)
        except Exception as e:
            raise PyRaise(e)

    def raw_setattr(self, obj, name, value):
        """object.__setattr__(obj, name, value)"""
        obj.__dict__[name] = value

    def delattr(self, obj, name):
        if self._is_repo_instance(obj):
            if name in obj.__dict__:
                del obj.__dict__[name]
                return
            raise PyRaise(AttributeError(name))
        try:
            delattr(obj, name)
        except Exception as e:
            raise PyRaise(e)

    # ------------------------------------------------------------------
    #   calls
    # ------------------------------------------------------------------

    def call(self, f, args, kwargs):
        f = self.force(f)
        if isinstance(f, BoundMethod):
            return self.call_function(f.func, [f.self] + list(args), kwargs, defclass=f.defclass)
        if isinstance(f, ModelMethod):
            return f.fn(self, f.self, *args, **kwargs)
        if isinstance(f, NativeBound):
            return self.call_native(f.raw, [f.obj] + list(args), kwargs)
        if isinstance(f, Closure):
            return self.call_closure(f, args, kwargs)
        if isinstance(f, types.FunctionType):
            return self.call_function(f, list(args), kwargs)
        if isinstance(f, types.MethodType):
            return self.call_function(f.__func__, [f.__self__] + list(args), kwargs) \
                if isinstance(f.__func__, types.FunctionType) else self.call_native(f, args, kwargs)
        if isinstance(f, type):
            return self.instantiate(f, args, kwargs)
        if isinstance(f, Sym):
            raise PyRaise(TypeError("symbolic value is not callable"))
        # callable instance of a repo class
        if self._is_repo_instance(f):
            c = self.lookup_class_attr(type(f), '__call__')
            if c is not None and isinstance(c[0], types.FunctionType):
                return self.call_function(c[0], [f] + list(args), kwargs, defclass=c[1])
        return self.call_native(f, args, kwargs)

    def call_native(self, f, args, kwargs):
        args = [self.force(a) for a in args]
        kwargs = dict((k, self.force(v)) for k, v in kwargs.items())
        m = self.models.lookup(self, f)
        if m is not None:
            return m(self, *args, **kwargs)
        if any(has_sym(a) for a in args) or any(has_sym(a) for a in kwargs.values()):
            raise Unsupported("native call %r with symbolic arguments has no model" % (getattr(f, '__qualname__', None) or f,))
        try:
            return f(*args, **kwargs)
        except (Unsupported, Infeasible):
            raise
        except PyRaise:
            raise
        except Exception as e:
            raise PyRaise(e)

    def instantiate(self, cls, args, kwargs):
        if not self.cfg.is_repo_class(cls):
            args = [self.force(a) for a in args]
        m = self.models.lookup(self, cls)
        if m is not None:
            return m(self, *args, **kwargs)
        if self.cfg.is_repo_class(cls):
            hook = self.cfg.contracts.get(('new', id(cls)))
            if hook is not None:
                r = hook.apply(self, cls, args, kwargs)
                if r is not NotImplemented:
                    return r
            # metaclass __call__ in repo code (singletons)
            meta = type(cls)
            if meta is not type and '__call__' in meta.__dict__ and isinstance(meta.__dict__['__call__'], types.FunctionType):
                return self.call_function(meta.__dict__['__call__'], [cls] + list(args), kwargs, defclass=meta)
            return self.construct(cls, args, kwargs)
        if any(has_sym(a) for a in args) or any(has_sym(a) for a in kwargs.values()):
            if isinstance(cls, type) and issubclass(cls, BaseException):
                return cls(SYM_PLACEHOLDER_STR)
            raise Unsupported("constructor %s with symbolic arguments has no model" % cls.__name__)
        try:
            return cls(*args, **kwargs)
        except (Unsupported, Infeasible, PyRaise):
            raise
        except Exception as e:
            raise PyRaise(e)

    def construct(self, cls, args, kwargs):
        """type.__call__: __new__ then __init__"""
        new = self.lookup_class_attr(cls, '__new__')
        if new is not None and new[1] is not object and isinstance(new[0], (staticmethod, types.FunctionType)):
            fn = new[0].__func__ if isinstance(new[0], staticmethod) else new[0]
            obj = self.call_function(fn, [cls] + list(args), kwargs, defclass=new[1])
            if not isinstance(obj, cls):
                return obj
        else:
            try:
                if issubclass(cls, BaseException):
                    safe = [a if not has_sym(a) else SYM_PLACEHOLDER_STR for a in args]
                    obj = cls.__new__(cls, *safe)
                elif issubclass(cls, (list, dict, set)):
                    obj = cls.__new__(cls)
                else:
                    obj = object.__new__(cls)
            except Exception as e:
                raise PyRaise(e)
        init = self.lookup_class_attr(cls, '__init__')
        if init is not None and isinstance(init[0], types.FunctionType):
            self.call_function(init[0], [obj] + list(args), kwargs, defclass=init[1])
        elif init is not None and init[1] is not object:
            # native __init__ (Exception, list, dict...)
            try:
                if issubclass(cls, BaseException):
                    safe = [a if not has_sym(a) else SYM_PLACEHOLDER_STR for a in args]
                    init[0](obj, *safe)
                else:
                    init[0](obj, *args, **kwargs)
            except Exception as e:
                raise PyRaise(e)
        elif args or kwargs:
            raise PyRaise(TypeError("%s() takes no arguments" % cls.__name__))
        return obj

    def call_function(self, func, args, kwargs, defclass=None):
        cfg = self.cfg
        m = cfg.models.get(id(func))
        if m is not None:
            return m(self, *args, **kwargs)
        if not cfg.interpretable(func):
            return self.call_native(func, args, kwargs)
        # contract substitution (modular reasoning)
        con = cfg.contracts.get(id(func))
        if con is not None and func is not cfg.target:
            r = con.apply(self, func, args, kwargs)
            if r is not NotImplemented:
                return r
        if con is None and cfg.target is not None and func is not cfg.target:
            cfg.inlined.add(func.__module__.split('.')[-1] + '.' + func.__qualname__)
        node = SOURCES.node_for(func)
        freevars = {}
        if func.__closure__:
            for nm, cell in zip(func.__code__.co_freevars, func.__closure__):
                try:
                    freevars[nm] = cell.cell_contents
                except ValueError:
                    pass
        frame = Frame(func=func, globs=func.__globals__, defclass=defclass, freevars=freevars)
        if defclass is None and '__class__' in freevars:
            frame.defclass = freevars['__class__']
        defaults = [self._path_default(d) for d in (func.__defaults__ or ())]
        kwdefaults = dict((k, self._path_default(d)) for k, d in (func.__kwdefaults__ or {}).items())
        self.bind_args(node.args, frame, args, kwargs, defaults, kwdefaults, func.__name__)
        if args:
            frame.self_obj = args[0]
        return self.run_body(node, frame, getattr(func, '__qualname__', func.__name__))

    def _path_default(self, d):
        """mutable default arguments are shared between calls *within* one
        execution (Python semantics) but must not leak between explored paths:
        each path works on its own copy, made on first use"""
        if isinstance(d, (list, dict, set)) and type(d) in (list, dict, set):
            clones = self.ctx.__dict__.setdefault('default_clones', {})
            ent = clones.get(id(d))
            if ent is None or ent[0] is not d:
                ent = (d, type(d)(d))
                clones[id(d)] = ent
            return ent[1]
        return d

    def call_closure(self, clo, args, kwargs):
        frame = Frame(func=None, globs=clo.frame.globals, parent=clo.frame, defclass=clo.frame.defclass)
        self.bind_args(clo.node.args, frame, list(args), kwargs, clo.defaults, clo.kw_defaults, clo.__name__)
        if isinstance(clo.node, ast.Lambda):
            return self.ev(clo.node.body, frame)
        return self.run_body(clo.node, frame, clo.__name__)

    def run_body(self, node, frame, qualname):
        self.depth += 1
        if self.depth > self.cfg.max_depth:
            self.depth -= 1
            raise Unsupported("call depth exceeded at %s" % qualname)
        self.call_stack.append(qualname)
        try:
            if _has_yield(node):
                return self.run_generator(node, frame)
            try:
                self.ex_block(node.body, frame)
            except ReturnEx as r:
                return r.value
            return None
        finally:
            self.call_stack.pop()
            self.depth -= 1

    def run_generator(self, node, frame):
        """generators are run eagerly into a list (no interleaving with the consumer)"""
        self.ctx.notes.append("generator %s evaluated eagerly" % getattr(node, 'name', '?'))
        frame.locals['$yield'] = []
        try:
            self.ex_block(node.body, frame)
        except ReturnEx:
            pass
        return frame.locals['$yield']

    def bind_args(self, a, frame, args, kwargs, defaults, kwdefaults, fname):
        params = [p.arg for p in getattr(a, 'posonlyargs', [])] + [p.arg for p in a.args]
        n = len(params)
        loc = frame.locals
        kwargs = dict(kwargs)
        if len(args) > n and a.vararg is None:
            raise PyRaise(TypeError("%s() takes %d positional arguments but %d were given" % (fname, n, len(args))))
        for i, p in enumerate(params):
            if i < len(args):
                if p in kwargs:
                    raise PyRaise(TypeError("%s() got multiple values for argument %r" % (fname, p)))
                loc[p] = args[i]
            elif p in kwargs:
                loc[p] = kwargs.pop(p)
            else:
                di = i - (n - len(defaults))
                if di >= 0:
                    loc[p] = defaults[di]
                else:
                    raise PyRaise(TypeError("%s() missing required positional argument: %r" % (fname, p)))
        if a.vararg is not None:
            loc[a.vararg.arg] = tuple(args[n:])
        for i, p in enumerate(a.kwonlyargs):
            if p.arg in kwargs:
                loc[p.arg] = kwargs.pop(p.arg)
            elif p.arg in kwdefaults:
                loc[p.arg] = kwdefaults[p.arg]
            else:
                raise PyRaise(TypeError("%s() missing keyword-only argument %r" % (fname, p.arg)))
        if a.kwarg is not None:
            loc[a.kwarg.arg] = kwargs
        elif kwargs:
            raise PyRaise(TypeError("%s() got an unexpected keyword argument %r" % (fname, sorted(kwargs)[0])))

    # ------------------------------------------------------------------
    #   names
    # ------------------------------------------------------------------

    def load_name(self, name, frame):
        f = frame
        first = True
        while f is not None:
            if name in f.locals and not (first and name in f.global_names):
                return f.locals[name]
            if name in f.freevars:
                return f.freevars[name]
            first = False
            f = f.parent
        g = frame.globals
        key = (id(g), name)
        if key in self.goverlay:
            return self.goverlay[key]
        if name in g:
            return g[name]
        if hasattr(builtins, name):
            return getattr(builtins, name)
        raise PyRaise(NameError("name %r is not defined" % name))

    def store_name(self, name, value, frame):
        if name in frame.global_names:
            self.goverlay[(id(frame.globals), name)] = value
            return
        if name in frame.nonlocal_names:
            f = frame.parent
            while f is not None:
                if name in f.locals:
                    f.locals[name] = value
                    return
                f = f.parent
        frame.locals[name] = value

    # ------------------------------------------------------------------
    #   statements
    # ------------------------------------------------------------------

    def ex_block(self, stmts, frame):
        for s in stmts:
            self.ex(s, frame)

    def ex(self, node, frame):
        m = getattr(self, 'ex_' + type(node).__name__, None)
        if m is None:
            raise Unsupported("statement %s (line %d)" % (type(node).__name__, node.lineno))
        return m(node, frame)

    def ex_Expr(self, node, frame):
        v = node.value
        if isinstance(v, ast.Call) and _is_logger_attr(v.func):
            return
        if isinstance(v, ast.Constant):
            return
        if isinstance(v, (ast.Yield, ast.YieldFrom)):
            self.ev(v, frame)
            return
        self.ev(v, frame)

    def ex_Pass(self, node, frame):
        pass

    def ex_Global(self, node, frame):
        frame.global_names.update(node.names)

    def ex_Nonlocal(self, node, frame):
        frame.nonlocal_names.update(node.names)

    def ex_Import(self, node, frame):
        import importlib
        for al in node.names:
            mod = importlib.import_module(al.name)
            if al.asname:
                frame.locals[al.asname] = mod
            else:
                frame.locals[al.name.split('.')[0]] = importlib.import_module(al.name.split('.')[0])

    def ex_ImportFrom(self, node, frame):
        import importlib
        pkg = frame.globals.get('__package__')
        mod = importlib.import_module('.' * node.level + (node.module or ''), pkg) if node.level else importlib.import_module(node.module)
        for al in node.names:
            try:
                v = getattr(mod, al.name)
            except AttributeError:
                v = importlib.import_module(mod.__name__ + '.' + al.name)
            self.store_name(al.asname or al.name, v, frame)

    def ex_Return(self, node, frame):
        raise ReturnEx(self.ev(node.value, frame) if node.value is not None else None)

    def ex_Break(self, node, frame):
        raise BreakEx()

    def ex_Continue(self, node, frame):
        raise ContinueEx()

    def ex_Assert(self, node, frame):
        if not self.truth(self.ev(node.test, frame)):
            raise PyRaise(AssertionError())

    def _merge_if(self, node, cond, frame):
        """if-conversion of `if c: X.append(a) else: X.append(b)` and
        `if c: v = a else: v = b` with pure int-like a, b: one path, ite value"""
        if len(node.body) != 1 or len(node.orelse) != 1:
            return False
        s1, s2 = node.body[0], node.orelse[0]
        def pure_small(e):
            return isinstance(e, ast.Constant) and isinstance(e.value, (int, bool)) or \
                (isinstance(e, ast.Name)) or \
                (isinstance(e, ast.UnaryOp) and isinstance(e.operand, ast.Constant))
        if isinstance(s1, ast.Expr) and isinstance(s2, ast.Expr) and isinstance(s1.value, ast.Call) and isinstance(s2.value, ast.Call):
            c1, c2 = s1.value, s2.value
            if (isinstance(c1.func, ast.Attribute) and isinstance(c2.func, ast.Attribute) and c1.func.attr == 'append' and c2.func.attr == 'append'
                    and ast.dump(c1.func.value) == ast.dump(c2.func.value) and isinstance(c1.func.value, ast.Name)
                    and len(c1.args) == 1 and len(c2.args) == 1 and not c1.keywords and not c2.keywords
                    and pure_small(c1.args[0]) and pure_small(c2.args[0])):
                tgt = self.ev(c1.func.value, frame)
                if not isinstance(tgt, list):
                    return False
                try:
                    a, b = self.ev(c1.args[0], frame), self.ev(c2.args[0], frame)
                except PyRaise:
                    return False
                ta, tb = int_term(a), int_term(b)
                if ta is None or tb is None or isinstance(a, bool) != isinstance(b, bool):
                    return False
                ba, bb = bits_of(a), bits_of(b)
                tgt.append(mk_int(z3.If(cond.t, ta, tb), (ba | bb) if (ba is not None and bb is not None) else None))
                return True
        if isinstance(s1, ast.Assign) and isinstance(s2, ast.Assign) and len(s1.targets) == 1 and len(s2.targets) == 1 \
                and isinstance(s1.targets[0], ast.Name) and isinstance(s2.targets[0], ast.Name) \
                and s1.targets[0].id == s2.targets[0].id and pure_small(s1.value) and pure_small(s2.value):
            try:
                a, b = self.ev(s1.value, frame), self.ev(s2.value, frame)
            except PyRaise:
                return False
            if isinstance(a, (bool, SBool)) or isinstance(b, (bool, SBool)):
                return False
            ta, tb = int_term(a), int_term(b)
            if ta is None or tb is None:
                return False
            ba, bb = bits_of(a), bits_of(b)
            self.store_name(s1.targets[0].id, mk_int(z3.If(cond.t, ta, tb), (ba | bb) if (ba is not None and bb is not None) else None), frame)
            return True
        return False

    def ex_If(self, node, frame):
        # `if _debug:` with the module's real flag is handled by ordinary evaluation
        tv = self.ev(node.test, frame)
        tt = self.truth_term(tv)
        if isinstance(tt, SBool) and self._merge_if(node, tt, frame):
            return
        if self.truth(tt, label=node.lineno):
            self.ex_block(node.body, frame)
        else:
            self.ex_block(node.orelse, frame)

    def ex_Assign(self, node, frame):
        v = self.ev(node.value, frame)
        for t in node.targets:
            self.assign(t, v, frame)

    def ex_AnnAssign(self, node, frame):
        if node.value is not None:
            self.assign(node.target, self.ev(node.value, frame), frame)

    def ex_AugAssign(self, node, frame):
        t = node.target
        if isinstance(t, ast.Name):
            cur = self.load_name(t.id, frame)
            new = self.aug(node.op, cur, self.ev(node.value, frame))
            self.store_name(t.id, new, frame)
        elif isinstance(t, ast.Attribute):
            obj = self.ev(t.value, frame)
            cur = self.getattr(obj, t.attr)
            new = self.aug(node.op, cur, self.ev(node.value, frame))
            self.setattr(obj, t.attr, new)
        elif isinstance(t, ast.Subscript):
            obj = self.ev(t.value, frame)
            idx = self.ev_index(t.slice, frame)
            cur = self.getitem(obj, idx)
            new = self.aug(node.op, cur, self.ev(node.value, frame))
            self.setitem(obj, idx, new)
        else:
            raise Unsupported("augmented assignment target")

    def aug(self, op, cur, val):
        """in-place operator: mutates bytearrays and lists, like Python"""
        if isinstance(op, ast.Add):
            if isinstance(cur, SBuf) and cur.mutable:
                other = buf_of(val)
                if other is None:
                    raise PyRaise(TypeError("can't concat %s to bytearray" % pytype_of(val).__name__))
                cur.chunks.extend(other.chunks)
                return cur
            if isinstance(cur, bytearray) and isinstance(val, SBuf):
                raise Unsupported("concrete bytearray += symbolic buffer (aliasing)")
            if isinstance(cur, list):
                if isinstance(val, Sym):
                    raise Unsupported("list += symbolic")
                cur.extend(self.iterate(val))
                return cur
        return self.binop(op, cur, val)

    def ex_Delete(self, node, frame):
        for t in node.targets:
            if isinstance(t, ast.Name):
                if t.id in frame.locals:
                    del frame.locals[t.id]
                else:
                    raise PyRaise(NameError(t.id))
            elif isinstance(t, ast.Attribute):
                self.delattr(self.ev(t.value, frame), t.attr)
            elif isinstance(t, ast.Subscript):
                obj = self.ev(t.value, frame)
                idx = self.ev_index(t.slice, frame)
                self.delitem(obj, idx)
            else:
                raise Unsupported("del target")

    def ex_Raise(self, node, frame):
        if node.exc is None:
            cur = frame.locals.get('$exc')
            f = frame
            if cur is None:
                raise PyRaise(RuntimeError("No active exception to reraise"))
            raise PyRaise(cur)
        e = self.ev(node.exc, frame)
        if isinstance(e, type):
            e = self.instantiate(e, [], {})
        if not isinstance(e, BaseException):
            raise PyRaise(TypeError("exceptions must derive from BaseException"))
        self.last_raise_stack = '>'.join(self.call_stack) + ':%d' % node.lineno
        raise PyRaise(e)

    def ex_Try(self, node, frame):
        try:
            try:
                self.ex_block(node.body, frame)
            except PyRaise as pr:
                exc = pr.exc
                for h in node.handlers:
                    if h.type is None:
                        match = True
                    else:
                        et = self.ev(h.type, frame)
                        try:
                            match = isinstance(exc, et)
                        except TypeError as e:
                            raise PyRaise(e)
                    if match:
                        if h.name:
                            frame.locals[h.name] = exc
                        saved = frame.locals.get('$exc')
                        frame.locals['$exc'] = exc
                        try:
                            self.ex_block(h.body, frame)
                        finally:
                            frame.locals['$exc'] = saved
                        break
                else:
                    raise
            else:
                self.ex_block(node.orelse, frame)
        finally:
            if node.finalbody:
                # note: an Infeasible/Unsupported passing through also runs this; harmless
                exc_in_flight = sys.exc_info()[0]
                if exc_in_flight is None or issubclass(exc_in_flight, (PyRaise, ReturnEx, BreakEx, ContinueEx)):
                    self.ex_block(node.finalbody, frame)

    def ex_With(self, node, frame):
        raise Unsupported("with statement")

    def ex_FunctionDef(self, node, frame):
        clo = Closure(node, frame, node.name)
        clo.defaults = [self.ev(d, frame) for d in node.args.defaults]
        clo.kw_defaults = {a.arg: self.ev(d, frame) for a, d in zip(node.args.kwonlyargs, node.args.kw_defaults) if d is not None}
        v = clo
        for d in reversed(node.decorator_list):
            v = self.call(self.ev(d, frame), [v], {})
        self.store_name(node.name, v, frame)

    def ex_ClassDef(self, node, frame):
        raise Unsupported("class definition inside interpreted code")

    def ex_While(self, node, frame):
        hook = self.loop_hook(node, frame)
        if hook is not None:
            return hook.run_while(self, node, frame)
        n = 0
        broke = False
        while True:
            if not self.truth(self.ev(node.test, frame), label=node.lineno):
                break
            n += 1
            if n > self.loop_bound():
                raise Unsupported("while loop at line %d exceeded unroll bound %d (needs an invariant)" % (node.lineno, self.loop_bound()))
            try:
                self.ex_block(node.body, frame)
            except BreakEx:
                broke = True
                break
            except ContinueEx:
                continue
        if not broke:
            self.ex_block(node.orelse, frame)

    def ex_For(self, node, frame):
        hook = self.loop_hook(node, frame)
        if hook is not None:
            return hook.run_for(self, node, frame)
        it = self.iterate(self.ev(node.iter, frame))
        broke = False
        for x in it:
            self.assign(node.target, x, frame)
            try:
                self.ex_block(node.body, frame)
            except BreakEx:
                broke = True
                break
            except ContinueEx:
                continue
        if not broke:
            self.ex_block(node.orelse, frame)

    def loop_bound(self):
        return getattr(self.cfg, 'unroll_bound', 600)

    def loop_hook(self, node, frame):
        hooks = getattr(self.cfg, 'loop_hooks', None)
        if not hooks:
            return None
        return hooks.get((frame.func.__code__.co_filename if frame.func else None, node.lineno))

    # ------------------------------------------------------------------
    #   assignment targets, subscripts
    # ------------------------------------------------------------------

    def assign(self, target, value, frame):
        if isinstance(target, ast.Name):
            self.store_name(target.id, value, frame)
        elif isinstance(target, ast.Attribute):
            self.setattr(self.ev(target.value, frame), target.attr, value)
        elif isinstance(target, ast.Subscript):
            obj = self.ev(target.value, frame)
            self.setitem(obj, self.ev_index(target.slice, frame), value)
        elif isinstance(target, (ast.Tuple, ast.List)):
            vals = self.iterate(value)
            star = [i for i, e in enumerate(target.elts) if isinstance(e, ast.Starred)]
            if star:
                i = star[0]
                after = len(target.elts) - i - 1
                if len(vals) < len(target.elts) - 1:
                    raise PyRaise(ValueError("not enough values to unpack"))
                for e, v in zip(target.elts[:i], vals[:i]):
                    self.assign(e, v, frame)
                self.assign(target.elts[i].value, list(vals[i:len(vals) - after]), frame)
                for e, v in zip(target.elts[i + 1:], vals[len(vals) - after:]):
                    self.assign(e, v, frame)
                return
            if len(vals) != len(target.elts):
                raise PyRaise(ValueError("too many values to unpack" if len(vals) > len(target.elts) else "not enough values to unpack"))
            for e, v in zip(target.elts, vals):
                self.assign(e, v, frame)
        else:
            raise Unsupported("assignment target %s" % type(target).__name__)

    def ev_index(self, node, frame):
        if isinstance(node, ast.Slice):
            return slice(self.ev(node.lower, frame) if node.lower is not None else None,
                         self.ev(node.upper, frame) if node.upper is not None else None,
                         self.ev(node.step, frame) if node.step is not None else None)
        return self.ev(node, frame)

    def concrete_int(self, v, cap=64):
        """a python int for an int-like value: the unique value under the path
        condition, else a case split over 0..cap (complete when the path
        condition bounds the value)"""
        if isinstance(v, bool):
            return int(v)
        if isinstance(v, int):
            return v
        t = int_term(v)
        if t is None:
            raise PyRaise(TypeError("an integer is required"))
        u = self.ctx.unique_value(t)
        if u is not None:
            return u
        for k in range(0, cap + 1):
            if self.ctx.decide(t == k):
                return k
        if self.ctx._check() == z3.unsat:
            raise Infeasible()
        raise Unsupported("symbolic count not bounded by %d needs a loop invariant" % cap)

    def concretize_index(self, idx, n, what):
        """fork a symbolic index over 0..n-1 (and the out-of-range case)"""
        t = int_term(idx)
        for k in range(-n, n):
            if self.ctx.decide(t == k):
                return k
        return None

    def getitem(self, obj, idx):
        obj, idx = self.force(obj), self.force(idx)
        if isinstance(obj, SBuf):
            if isinstance(idx, slice):
                if idx.step is not None:
                    raise Unsupported("buffer slice with step")
                return bufops.slice_(self.ctx, obj, idx.start, idx.stop)
            try:
                return bufops.index(self.ctx, obj, idx)
            except bufops.PyIndexError as e:
                raise PyRaise(IndexError(str(e)))
        if isinstance(obj, (bytes, bytearray)) and (isinstance(idx, Sym) or (isinstance(idx, slice) and has_sym((idx.start, idx.stop)))):
            return self.getitem(SBuf.from_bytes(obj), idx)
        if isinstance(obj, Sym):
            raise PyRaise(TypeError("%s object is not subscriptable" % pytype_of(obj).__name__))
        if isinstance(obj, (list, tuple, str, range)):
            if isinstance(idx, SInt) and isinstance(obj, (list, tuple)) and 1 < len(obj) <= 64:
                # a constant table of integers read at a symbolic in-range index: one if-then-else chain instead of one path per entry
                ints = [k for k, x in enumerate(obj) if type(x) is int]
                t = int_term(idx)
                if len(ints) > 1 and self.ctx.valid(z3.And(t >= 0, t < len(obj))) and \
                        all(self.ctx.valid(t != k) for k in range(len(obj)) if type(obj[k]) is not int):
                    e = z3.IntVal(obj[ints[-1]])
                    for k in reversed(ints[:-1]):
                        e = z3.If(t == k, z3.IntVal(obj[k]), e)
                    return SInt(e)
            if isinstance(idx, (SInt, SBool)):
                k = self.concretize_index(idx, len(obj), 'index')
                if k is None:
                    raise PyRaise(IndexError("%s index out of range" % type(obj).__name__))
                return obj[k]
            if isinstance(idx, slice) and has_sym((idx.start, idx.stop, idx.step)):
                n = len(obj)
                lo = idx.start if not isinstance(idx.start, Sym) else self._concretize_bound(idx.start, n)
                hi = idx.stop if not isinstance(idx.stop, Sym) else self._concretize_bound(idx.stop, n)
                return obj[slice(lo, hi, idx.step)]
            try:
                return obj[idx]
            except Exception as e:
                raise PyRaise(e)
        if isinstance(obj, dict):
            if isinstance(idx, Sym) or (has_sym(idx) and not identity_key(idx)):
                for k in list(obj.keys()):
                    if self.truth(self.eq(k, idx)):
                        return obj[k]
                raise PyRaise(KeyError(SYM_PLACEHOLDER_STR))
            try:
                return obj[idx]
            except Exception as e:
                raise PyRaise(e)
        f = self.lookup_class_attr(type(obj), '__getitem__')
        if f is not None and isinstance(f[0], types.FunctionType) and self.cfg.interpretable(f[0]):
            return self.call_function(f[0], [obj, idx], {}, defclass=f[1])
        if isinstance(obj, type) and hasattr(obj, '__class_getitem__'):
            return obj[idx]
        try:
            return obj[idx]
        except Exception as e:
            raise PyRaise(e)

    def _concretize_bound(self, b, n):
        t = int_term(b)
        for k in range(0, n + 1):
            if self.ctx.decide(t == k):
                return k
        if self.ctx.decide(t > n):
            return n
        for k in range(-1, -n - 1, -1):
            if self.ctx.decide(t == k):
                return k
        return -n - 1 if False else 0

    def setitem(self, obj, idx, value):
        obj, idx = self.force(obj), self.force(idx)
        if isinstance(obj, SBuf):
            raise Unsupported("item assignment into symbolic buffer")
        if isinstance(obj, list):
            if isinstance(idx, (SInt, SBool)):
                k = self.concretize_index(idx, len(obj), 'index')
                if k is None:
                    raise PyRaise(IndexError("list assignment index out of range"))
                obj[k] = value
                return
            if isinstance(idx, slice):
                value = self.iterate(value)
            try:
                obj[idx] = value
            except Exception as e:
                raise PyRaise(e)
            return
        if isinstance(obj, dict):
            if isinstance(idx, Sym) or (has_sym(idx) and not identity_key(idx)):
                for k in list(obj.keys()):
                    if self.truth(self.eq(k, idx)):
                        obj[k] = value
                        return
                raise Unsupported("insertion of a new symbolic key into a dict")
            try:
                obj[idx] = value
            except Exception as e:
                raise PyRaise(e)
            return
        f = self.lookup_class_attr(type(obj), '__setitem__')
        if f is not None and isinstance(f[0], types.FunctionType) and self.cfg.interpretable(f[0]):
            return self.call_function(f[0], [obj, idx, value], {}, defclass=f[1])
        if isinstance(obj, bytearray) and isinstance(value, Sym):
            raise Unsupported("symbolic store into concrete bytearray")
        try:
            obj[idx] = value
        except Exception as e:
            raise PyRaise(e)

    def delitem(self, obj, idx):
        if isinstance(obj, SBuf):
            try:
                if isinstance(idx, slice):
                    if idx.step is not None:
                        raise Unsupported("del buffer slice with step")
                    return bufops.delete_slice(self.ctx, obj, idx.start, idx.stop)
                return bufops.delete_index(self.ctx, obj, idx)
            except bufops.PyIndexError as e:
                raise PyRaise(IndexError(str(e)))
        if isinstance(obj, list) and isinstance(idx, (SInt, SBool)):
            k = self.concretize_index(idx, len(obj), 'index')
            if k is None:
                raise PyRaise(IndexError("list assignment index out of range"))
            del obj[k]
            return
        if isinstance(obj, list) and isinstance(idx, slice) and has_sym((idx.start, idx.stop)):
            n = len(obj)
            lo = idx.start if not isinstance(idx.start, Sym) else self._concretize_bound(idx.start, n)
            hi = idx.stop if not isinstance(idx.stop, Sym) else self._concretize_bound(idx.stop, n)
            del obj[slice(lo, hi, idx.step)]
            return
        if isinstance(obj, dict) and (isinstance(idx, Sym) or (has_sym(idx) and not identity_key(idx))):
            for k in list(obj.keys()):
                if self.truth(self.eq(k, idx)):
                    del obj[k]
                    return
            raise PyRaise(KeyError(SYM_PLACEHOLDER_STR))
        f = self.lookup_class_attr(type(obj), '__delitem__')
        if f is not None and isinstance(f[0], types.FunctionType) and self.cfg.interpretable(f[0]):
            return self.call_function(f[0], [obj, idx], {}, defclass=f[1])
        try:
            del obj[idx]
        except Exception as e:
            raise PyRaise(e)

    def iterate(self, v):
        """materialise an iterable as a python list"""
        v = self.force(v)
        if isinstance(v, (list, tuple)):
            return list(v)
        if isinstance(v, SBuf):
            return bufops.expand(self.ctx, v)
        if isinstance(v, Sym):
            raise PyRaise(TypeError("%s object is not iterable" % pytype_of(v).__name__))
        if isinstance(v, (str, bytes, bytearray, dict, set, frozenset, range)) or type(v).__name__ in (
                'dict_keys', 'dict_values', 'dict_items', 'list_iterator', 'tuple_iterator', 'generator',
                'zip', 'enumerate', 'map', 'filter', 'reversed', 'list_reverseiterator', 'range_iterator', 'dict_keyiterator',
                'dict_valueiterator', 'dict_itemiterator', 'set_iterator'):
            return list(v)
        f = self.lookup_class_attr(type(v), '__iter__')
        if f is not None and isinstance(f[0], types.FunctionType) and self.cfg.interpretable(f[0]):
            return self.iterate(self.call_function(f[0], [v], {}, defclass=f[1]))
        g = self.lookup_class_attr(type(v), '__getitem__')
        if f is None and g is not None and isinstance(g[0], types.FunctionType) and self.cfg.interpretable(g[0]):
            out = []
            i = 0
            while True:
                try:
                    out.append(self.call_function(g[0], [v, i], {}, defclass=g[1]))
                except PyRaise as e:
                    if isinstance(e.exc, IndexError):
                        break
                    raise
                i += 1
                if i > self.loop_bound():
                    raise Unsupported("iteration via __getitem__ too long")
            return out
        try:
            return list(v)
        except Exception as e:
            raise PyRaise(e)

    # ------------------------------------------------------------------
    #   expressions
    # ------------------------------------------------------------------

    def ev(self, node, frame):
        m = getattr(self, 'ev_' + type(node).__name__, None)
        if m is None:
            raise Unsupported("expression %s (line %d)" % (type(node).__name__, getattr(node, 'lineno', 0)))
        return m(node, frame)

    def ev_Constant(self, node, frame):
        return node.value

    def ev_Name(self, node, frame):
        return self.load_name(node.id, frame)

    def ev_Attribute(self, node, frame):
        return self.getattr(self.ev(node.value, frame), node.attr)

    def ev_Subscript(self, node, frame):
        obj = self.ev(node.value, frame)
        return self.getitem(obj, self.ev_index(node.slice, frame))

    def ev_Tuple(self, node, frame):
        return tuple(self._ev_elts(node.elts, frame))

    def ev_List(self, node, frame):
        return list(self._ev_elts(node.elts, frame))

    def ev_Set(self, node, frame):
        vals = self._ev_elts(node.elts, frame)
        if any(isinstance(v, Sym) for v in vals):
            raise Unsupported("set literal with symbolic members")
        return set(vals)

    def _ev_elts(self, elts, frame):
        out = []
        for e in elts:
            if isinstance(e, ast.Starred):
                out.extend(self.iterate(self.ev(e.value, frame)))
            else:
                out.append(self.ev(e, frame))
        return out

    def ev_Dict(self, node, frame):
        d = {}
        for k, v in zip(node.keys, node.values):
            if k is None:
                d.update(self.ev(v, frame))
            else:
                kk = self.ev(k, frame)
                if isinstance(kk, Sym):
                    raise Unsupported("dict literal with symbolic key")
                d[kk] = self.ev(v, frame)
        return d

    def ev_JoinedStr(self, node, frame):
        parts = []
        for v in node.values:
            if isinstance(v, ast.Constant):
                parts.append(str(v.value))
            else:
                x = self.ev(v.value, frame)
                if has_sym(x):
                    return SYM_PLACEHOLDER_STR
                try:
                    parts.append(format(x))
                except Exception:
                    parts.append('?')
        return ''.join(parts)

    def ev_UnaryOp(self, node, frame):
        v = self.force(self.ev(node.operand, frame))
        if isinstance(node.op, ast.Not):
            return self.not_(v)
        if not isinstance(v, Sym):
            try:
                return {ast.USub: operator.neg, ast.UAdd: operator.pos, ast.Invert: operator.invert}[type(node.op)](v)
            except Exception as e:
                raise PyRaise(e)
        if isinstance(v, SReal):
            if isinstance(node.op, ast.USub):
                return mk_real(-v.t)
            if isinstance(node.op, ast.UAdd):
                return v
        t = int_term(v)
        if t is None:
            raise PyRaise(TypeError("bad operand type for unary operator"))
        if isinstance(node.op, ast.USub):
            return mk_int(z3.simplify(-t))
        if isinstance(node.op, ast.UAdd):
            return mk_int(t, bits_of(v))
        if isinstance(node.op, ast.Invert):
            return mk_int(z3.simplify(-t - 1))
        raise Unsupported("unary operator")

    def ev_BinOp(self, node, frame):
        a = self.ev(node.left, frame)
        b = self.ev(node.right, frame)
        return self.binop(node.op, a, b)

    def ev_BoolOp(self, node, frame):
        is_and = isinstance(node.op, ast.And)
        vals = node.values
        cur = self.ev(vals[0], frame)
        for i, nxt in enumerate(vals[1:]):
            t = self.truth_term(cur)
            if isinstance(t, bool):
                if t != is_and:
                    return cur          # short circuit
                cur = self.ev(nxt, frame)
                continue
            # symbolic left operand: merge when the rest is pure and boolean, else fork
            rest = vals[i + 1:]
            if all(_is_pure(r) for r in rest) and isinstance(cur, SBool):
                saved = cur
                try:
                    rv = self.ev(nxt, frame)
                    rt = rv if isinstance(rv, (bool, SBool)) else None
                except PyRaise:
                    rt = None
                if rt is not None:
                    cur = self.and_(saved, rt) if is_and else self.or_(saved, rt)
                    continue
                cur = saved
            if self.ctx.decide(t.t) != is_and:
                return cur
            cur = self.ev(nxt, frame)
        return cur

    def ev_Compare(self, node, frame):
        left = self.ev(node.left, frame)
        acc = True
        for op, rnode in zip(node.ops, node.comparators):
            right = self.ev(rnode, frame)
            r = self.compare(op, left, right)
            if len(node.ops) == 1:
                return r
            t = self.truth_term(r)
            if t is False:
                return False
            acc = self.and_(acc, t)
            left = right
        return acc

    def ev_IfExp(self, node, frame):
        if self.truth(self.ev(node.test, frame)):
            return self.ev(node.body, frame)
        return self.ev(node.orelse, frame)

    def ev_Lambda(self, node, frame):
        clo = Closure(node, frame, '<lambda>')
        clo.defaults = [self.ev(d, frame) for d in node.args.defaults]
        clo.kw_defaults = {a.arg: self.ev(d, frame) for a, d in zip(node.args.kwonlyargs, node.args.kw_defaults) if d is not None}
        return clo

    def ev_Yield(self, node, frame):
        f = frame
        while f is not None and '$yield' not in f.locals:
            f = f.parent
        if f is None:
            raise Unsupported("yield outside generator")
        f.locals['$yield'].append(self.ev(node.value, frame) if node.value is not None else None)
        return None

    def ev_YieldFrom(self, node, frame):
        f = frame
        while f is not None and '$yield' not in f.locals:
            f = f.parent
        if f is None:
            raise Unsupported("yield outside generator")
        f.locals['$yield'].extend(self.iterate(self.ev(node.value, frame)))
        return None

    def _comp(self, generators, frame, emit):
        def rec(i, fr):
            if i == len(generators):
                emit(fr)
                return
            g = generators[i]
            for x in self.iterate(self.ev(g.iter, fr)):
                self.assign(g.target, x, fr)
                ok = True
                for c in g.ifs:
                    if not self.truth(self.ev(c, fr)):
                        ok = False
                        break
                if ok:
                    rec(i + 1, fr)
        inner = Frame(func=frame.func, globs=frame.globals, parent=frame, defclass=frame.defclass)
        inner.self_obj = frame.self_obj
        rec(0, inner)

    def ev_ListComp(self, node, frame):
        out = []
        self._comp(node.generators, frame, lambda fr: out.append(self.ev(node.elt, fr)))
        return out

    def ev_GeneratorExp(self, node, frame):
        return self.ev_ListComp(node, frame)

    def ev_SetComp(self, node, frame):
        out = []
        self._comp(node.generators, frame, lambda fr: out.append(self.ev(node.elt, fr)))
        if any(isinstance(v, Sym) for v in out):
            raise Unsupported("set comprehension with symbolic members")
        return set(out)

    def ev_DictComp(self, node, frame):
        out = {}
        def emit(fr):
            k = self.ev(node.key, fr)
            if isinstance(k, Sym):
                raise Unsupported("dict comprehension with symbolic key")
            out[k] = self.ev(node.value, fr)
        self._comp(node.generators, frame, emit)
        return out

    def ev_Starred(self, node, frame):
        raise Unsupported("starred expression")

    def ev_Call(self, node, frame):
        fnode = node.func
        if _is_logger_attr(fnode):
            return None
        # super() without arguments
        if isinstance(fnode, ast.Name) and fnode.id == 'super' and not node.args:
            sup = self.load_name('super', frame)
            if sup is builtins.super:
                fr = frame
                while fr is not None and fr.defclass is None:
                    fr = fr.parent
                if fr is None:
                    raise Unsupported("zero-argument super() outside a method")
                return SuperProxy(fr.defclass, fr.self_obj if fr.self_obj is not None else frame.self_obj)
        f = self.ev(fnode, frame)
        args = []
        for a in node.args:
            if isinstance(a, ast.Starred):
                args.extend(self.iterate(self.ev(a.value, frame)))
            else:
                args.append(self.ev(a, frame))
        kwargs = {}
        for k in node.keywords:
            if k.arg is None:
                kwargs.update(self.ev(k.value, frame))
            else:
                kwargs[k.arg] = self.ev(k.value, frame)
        return self.call(f, args, kwargs)

    def ev_NamedExpr(self, node, frame):
        v = self.ev(node.value, frame)
        self.assign(node.target, v, frame)
        return v

    def ev_Slice(self, node, frame):
        return self.ev_index(node, frame)


class NativeBound(object):
    """slot wrapper / builtin method from a native base class, bound late"""
    __slots__ = ('raw', 'obj', 'cls')
    def __init__(self, raw, obj, cls):
        self.raw = raw
        self.obj = obj
        self.cls = cls


def _has_yield(node):
    cached = getattr(node, '_pyvc_has_yield', None)
    if cached is not None:
        return cached
    found = False
    stack = list(getattr(node, 'body', []))
    while stack:
        n = stack.pop()
        if isinstance(n, (ast.Yield, ast.YieldFrom)):
            found = True
            break
        if isinstance(n, (ast.FunctionDef, ast.Lambda, ast.ClassDef)):
            continue
        stack.extend(ast.iter_child_nodes(n))
    try:
        node._pyvc_has_yield = found
    except Exception:
        pass
    return found

def _is_pure(node):
    """no calls / subscripts / attribute loads that could raise or have effects"""
    for n in ast.walk(node):
        if isinstance(n, (ast.Call, ast.Subscript, ast.Yield, ast.YieldFrom, ast.NamedExpr, ast.Await,
                          ast.BinOp, ast.ListComp, ast.GeneratorExp, ast.DictComp, ast.SetComp)):
            return False
    return True

_OPNAMES = {ast.Add: '+', ast.Mult: '*', ast.FloorDiv: '//', ast.Mod: '%', ast.LShift: '<<', ast.RShift: '>>',
            ast.BitAnd: '&', ast.BitOr: '|'}

_BINOPS = {
    ast.Add: operator.add, ast.Sub: operator.sub, ast.Mult: operator.mul, ast.Div: operator.truediv,
    ast.FloorDiv: operator.floordiv, ast.Mod: operator.mod, ast.Pow: operator.pow,
    ast.LShift: operator.lshift, ast.RShift: operator.rshift, ast.BitAnd: operator.and_,
    ast.BitOr: operator.or_, ast.BitXor: operator.xor, ast.MatMult: operator.matmul,
}
_DUNDER = {
    ast.Add: ('__add__', '__radd__'), ast.Sub: ('__sub__', '__rsub__'), ast.Mult: ('__mul__', '__rmul__'),
    ast.BitAnd: ('__and__', '__rand__'), ast.BitOr: ('__or__', '__ror__'),
}
_CMPOPS = {ast.Lt: operator.lt, ast.LtE: operator.le, ast.Gt: operator.gt, ast.GtE: operator.ge}
_CMP_DUNDER = {ast.Lt: ('__lt__', '__gt__'), ast.LtE: ('__le__', '__ge__'), ast.Gt: ('__gt__', '__lt__'), ast.GtE: ('__ge__', '__le__')}
