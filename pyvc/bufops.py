"""
pyvc.bufops -- operations on structured byte buffers (SBuf) that may need the
path context to resolve structure (is this index inside that blob?).
"""

import z3
from .sym import (SBuf, Blob, SInt, SBool, mk_int, mk_bool, int_term, _add, _sub, _t, _fold,
                  Unsupported, is_sym)

SPLIT_CAP = 16

class PyIndexError(Exception):
    pass

def _is_zero(x):
    return isinstance(x, int) and x == 0

def _same(a, b):
    """cheap syntactic equality of two lengths/offsets"""
    if isinstance(a, int) and isinstance(b, int):
        return a == b
    if isinstance(a, int) or isinstance(b, int):
        return False
    return a.eq(b) or z3.is_true(z3.simplify(a == b))

def octet_value(ctx, c):
    """python-level value of an octet chunk"""
    if isinstance(c, int):
        return c
    from . import bitfield
    return bitfield.wrap(c, 0xFF)

def blob_octet(ctx, blob, k):
    t = z3.Select(blob.arr, _t(_add(blob.off, k)))
    ctx.fact(z3.And(t >= 0, t <= 255))
    return t

def length(buf):
    return mk_int(_t(buf.length())) if not isinstance(buf.length(), int) else buf.length()

def le(ctx, a, b):
    """decide a <= b for int/term operands"""
    if isinstance(a, int) and isinstance(b, int):
        return a <= b
    return ctx.decide(_t(a) <= _t(b))

def lt(ctx, a, b):
    if isinstance(a, int) and isinstance(b, int):
        return a < b
    return ctx.decide(_t(a) < _t(b))

def index(ctx, buf, i):
    """buf[i] -> octet (python int or SInt); raises PyIndexError"""
    n = buf.length()
    if isinstance(i, (SInt, SBool)):
        i = _fold(int_term(i))
    if isinstance(i, bool):
        i = int(i)
    if isinstance(i, int):
        if i < 0:
            i = _add(n, i)
    else:
        if ctx.decide(i < 0):
            i = _add(n, i)
    # bounds
    if isinstance(i, int) and isinstance(n, int):
        ok = 0 <= i < n
    else:
        ok = ctx.decide(z3.And(_t(i) >= 0, _t(i) < _t(n)))
    if not ok:
        raise PyIndexError("index out of range")
    k = i
    for c in buf.chunks:
        if isinstance(c, Blob):
            if lt(ctx, k, c.n):
                return mk_int(blob_octet(ctx, c, k), 0xFF)
            k = _sub(k, c.n)
        else:
            if isinstance(k, int):
                if k == 0:
                    return octet_value(ctx, c)
                k -= 1
            else:
                if ctx.decide(k == 0):
                    return octet_value(ctx, c)
                k = _sub(k, 1)
    raise Unsupported("buffer index walk fell off the end")

def split(ctx, buf, k):
    """split chunk list at position k (0 <= k <= len(buf), established by caller)"""
    left = []
    chunks = list(buf.chunks)
    pos = 0
    while pos < len(chunks):
        if _is_zero(k):
            break
        c = chunks[pos]
        if isinstance(c, Blob):
            if _same(k, c.n):
                left.append(c)
                k = 0
                pos += 1
                break
            if isinstance(k, int) and isinstance(c.n, int):
                whole = k >= c.n
            else:
                whole = ctx.decide(_t(k) >= _t(c.n))
            if whole:
                left.append(c)
                k = _sub(k, c.n)
                pos += 1
            else:
                left.append(Blob(c.arr, c.off, k))
                chunks[pos] = Blob(c.arr, _add(c.off, k), _sub(c.n, k))
                k = 0
                break
        else:
            if isinstance(k, int):
                left.append(c)
                k -= 1
                pos += 1
            else:
                if ctx.decide(_t(k) >= 1):
                    left.append(c)
                    k = _sub(k, 1)
                    pos += 1
                else:
                    k = 0
                    break
    return left, chunks[pos:]

def _norm_bound(ctx, x, n, default):
    """normalise a slice bound against length n (python clamping semantics)"""
    if x is None:
        return default
    if isinstance(x, (SInt, SBool)):
        x = _fold(int_term(x))
    if isinstance(x, bool):
        x = int(x)
    if isinstance(x, int) and isinstance(n, int):
        if x < 0:
            x = max(0, n + x)
        return min(x, n)
    # symbolic
    if isinstance(x, int):
        if x < 0:
            x = _add(n, x)
            if ctx.decide(_t(x) < 0):
                return 0
            return x
        if ctx.decide(_t(x) > _t(n)):
            return n
        return x
    if ctx.decide(x < 0):
        x = _add(n, x)
        if ctx.decide(_t(x) < 0):
            return 0
        return x
    if ctx.decide(_t(x) > _t(n)):
        return n
    return x

def slice_(ctx, buf, lo, hi):
    """buf[lo:hi] -> new SBuf of the same mutability"""
    n = buf.length()
    lo = _norm_bound(ctx, lo, n, 0)
    hi = _norm_bound(ctx, hi, n, n)
    # empty when hi <= lo
    if isinstance(lo, int) and isinstance(hi, int):
        empty = hi <= lo
    else:
        empty = ctx.decide(_t(hi) <= _t(lo))
    if empty:
        return SBuf([], buf.mutable)
    _, rest = split(ctx, buf, lo)
    mid, _ = split(ctx, SBuf(rest), _sub(hi, lo))
    return SBuf(mid, buf.mutable)

def delete_slice(ctx, buf, lo, hi):
    if not buf.mutable:
        raise Unsupported("del on immutable bytes")
    n = buf.length()
    lo = _norm_bound(ctx, lo, n, 0)
    hi = _norm_bound(ctx, hi, n, n)
    if isinstance(lo, int) and isinstance(hi, int):
        empty = hi <= lo
    else:
        empty = ctx.decide(_t(hi) <= _t(lo))
    if empty:
        return
    left, rest = split(ctx, buf, lo)
    _, right = split(ctx, SBuf(rest), _sub(hi, lo))
    buf.chunks[:] = left + right

def delete_index(ctx, buf, i):
    if not buf.mutable:
        raise Unsupported("del on immutable bytes")
    n = buf.length()
    if isinstance(i, (SInt, SBool)):
        i = _fold(int_term(i))
    if isinstance(i, int) and i < 0:
        i = _add(n, i)
    if isinstance(i, int) and isinstance(n, int):
        ok = 0 <= i < n
    else:
        ok = ctx.decide(z3.And(_t(i) >= 0, _t(i) < _t(n)))
    if not ok:
        raise PyIndexError("bytearray index out of range")
    left, rest = split(ctx, buf, i)
    _, right = split(ctx, SBuf(rest), 1)
    buf.chunks[:] = left + right

def concat(a, b, mutable):
    return SBuf(list(a.chunks) + list(b.chunks), mutable)

def expand(ctx, buf):
    """list of octet values; needs every blob length to be concrete (or
    decidable to a constant)"""
    out = []
    for c in buf.chunks:
        if isinstance(c, Blob):
            n = c.n
            if not isinstance(n, int):
                n = _fold(n)
            if not isinstance(n, int):
                # case split on the length: complete when the path condition bounds it
                for k in range(0, SPLIT_CAP + 1):
                    if ctx.decide(n == k):
                        n = k
                        break
                else:
                    import z3 as _z3
                    if ctx._check() == _z3.unsat:
                        from .sym import Infeasible
                        raise Infeasible()
                    raise Unsupported("iteration over a buffer whose length is not bounded by %d needs a loop invariant" % SPLIT_CAP)
            for j in range(n):
                out.append(mk_int(blob_octet(ctx, c, j), 0xFF))
        else:
            out.append(octet_value(ctx, c))
    return out

def equal(ctx, a, b):
    """a == b as a python bool or SBool (may make decisions about structure)"""
    ca = list(a.chunks)
    cb = list(b.chunks)
    conj = []
    ia = ib = 0
    guard = 0
    while ia < len(ca) and ib < len(cb):
        guard += 1
        if guard > 10000:
            raise Unsupported("buffer comparison did not converge")
        x, y = ca[ia], cb[ib]
        xb, yb = isinstance(x, Blob), isinstance(y, Blob)
        if not xb and not yb:
            if isinstance(x, int) and isinstance(y, int):
                if x != y:
                    return False
            else:
                conj.append(_t(x) == _t(y))
            ia += 1; ib += 1
        elif xb and yb:
            # drop empty blobs first
            if _is_zero(x.n):
                ia += 1; continue
            if _is_zero(y.n):
                ib += 1; continue
            same_src = x.arr.eq(y.arr) and _same(x.off, y.off)
            if _same(x.n, y.n):
                m = x.n
                ia += 1; ib += 1
            elif le(ctx, x.n, y.n):
                m = x.n
                cb[ib] = Blob(y.arr, _add(y.off, m), _sub(y.n, m))
                ia += 1
            else:
                m = y.n
                ca[ia] = Blob(x.arr, _add(x.off, m), _sub(x.n, m))
                ib += 1
            if not same_src:
                j = z3.Int(ctx.uname('j!eq'))
                conj.append(z3.ForAll([j], z3.Implies(z3.And(j >= 0, j < _t(m)),
                    z3.Select(x.arr, _t(x.off) + j) == z3.Select(y.arr, _t(y.off) + j))))
        else:
            # octet against blob: peel one octet off the blob if it is non-empty
            if xb:
                blob, octet = x, y
            else:
                blob, octet = y, x
            if isinstance(blob.n, int):
                nonempty = blob.n >= 1
            else:
                nonempty = ctx.decide(_t(blob.n) >= 1)
            if not nonempty:
                if xb: ia += 1
                else: ib += 1
                continue
            conj.append(blob_octet(ctx, blob, 0) == _t(octet))
            rest = Blob(blob.arr, _add(blob.off, 1), _sub(blob.n, 1))
            if xb:
                ca[ia] = rest; ib += 1
            else:
                cb[ib] = rest; ia += 1
    # leftovers must be empty
    for c in ca[ia:] + cb[ib:]:
        if isinstance(c, Blob):
            if isinstance(c.n, int):
                if c.n != 0:
                    return False
            else:
                conj.append(_t(c.n) == 0)
        else:
            return False
    if not conj:
        return True
    return mk_bool(z3.simplify(z3.And(*conj)) if len(conj) > 1 else z3.simplify(conj[0]))
