"""
pyvc.sym -- symbolic values and the path context.

Values seen by the interpreter are either ordinary Python objects (concrete)
or instances of the Sym classes below, which wrap z3 terms:

  SInt   mathematical integer (Python ints are unbounded, so this is exact)
  SBool  boolean
  SReal  real number standing in for a float ("machine arithmetic treated as
         mathematical" -- listed as an assumption wherever it is used)
  SBuf   bytes / bytearray as a *structured buffer*: a Python list of chunks,
         each a single symbolic octet or an opaque blob (z3 array, offset,
         symbolic length).  All buffer surgery is done by the interpreter on
         this structure; the solver only sees integer side conditions.
  SOpaque  value of an uninterpreted sort supporting equality only

The PathCtx carries the path condition (a z3 solver), makes branch decisions
(replaying a recorded prefix first -- exploration is by re-execution), and
records proof obligations.
"""

import z3

# ----------------------------------------------------------------------------
#   exceptions used for control
# ----------------------------------------------------------------------------

class Infeasible(Exception):
    """The current path condition became unsatisfiable; prune the path."""

class Unsupported(Exception):
    """The code left the subset the encoder handles; never mapped to a verdict."""

class PathBudget(Exception):
    """Too many paths / decisions."""

# ----------------------------------------------------------------------------
#   symbolic scalars
# ----------------------------------------------------------------------------

class Sym(object):
    __slots__ = ()
    def __bool__(self):
        raise Unsupported("implicit truth value of symbolic %r taken by native code" % (self,))
    def __hash__(self):
        return id(self)

class SInt(Sym):
    __slots__ = ('t', 'bits', 'tz', 'fld', 'aux')
    def __init__(self, t, bits=None, tz=0):
        self.fld = None         # bit-field view (pyvc.bitfield), or None
        self.aux = None         # ('orneg', x, c): this value is x | c for a negative constant c
        self.t = t
        self.bits = bits        # superset of possibly-set bits if known non-negative, else None
        self.tz = tz            # number of low bits known to be zero (any sign)
    def __repr__(self):
        return "SInt(%s)" % (self.t,)

class SBool(Sym):
    __slots__ = ('t',)
    def __init__(self, t):
        self.t = t
    def __repr__(self):
        return "SBool(%s)" % (self.t,)

class SReal(Sym):
    __slots__ = ('t',)
    def __init__(self, t):
        self.t = t
    def __repr__(self):
        return "SReal(%s)" % (self.t,)

class SOpaque(Sym):
    """A value of an uninterpreted sort: only equality is meaningful."""
    __slots__ = ('t', 'pytype')
    def __init__(self, t, pytype=object):
        self.t = t
        self.pytype = pytype
    def __repr__(self):
        return "SOpaque(%s)" % (self.t,)

class SIPStr(Sym):
    """the dotted-quad text of four (symbolic) octets, as produced by
    socket.inet_ntoa; inet_aton gives the octets back (trusted: the two are
    mutually inverse on dotted quads)"""
    __slots__ = ('octets',)
    def __init__(self, octets):
        self.octets = tuple(octets)
    def __repr__(self):
        return "SIPStr(%r)" % (self.octets,)

class SDecStr(Sym):
    """the decimal text of a (symbolic) non-negative integer, as matched by a
    \\d+ regex group; int() gives the number back (trusted: int(str(n)) == n)"""
    __slots__ = ('value',)
    def __init__(self, value):
        self.value = value
    def __repr__(self):
        return "SDecStr(%r)" % (self.value,)

class SOption(Sym):
    """a value that is None exactly when `isnone` holds, else `value`: lets
    `x is None` tests be decided lazily instead of forking when the input is built"""
    __slots__ = ('isnone', 'value')
    def __init__(self, isnone, value):
        self.isnone = isnone        # bool or SBool
        self.value = value
    def __repr__(self):
        return "SOption(%r, %r)" % (self.isnone, self.value)

def is_sym(v):
    return isinstance(v, Sym)

def mk_int(t, bits=None, tz=0):
    """Wrap a z3 int term, folding constants back to Python ints."""
    if isinstance(t, int):
        return t
    if z3.is_int_value(t):
        return t.as_long()
    return SInt(t, bits, tz)

def tz_of(v):
    """number of low bits known to be zero"""
    if isinstance(v, bool):
        return 0 if v else 1 << 20
    if isinstance(v, int):
        if v == 0:
            return 1 << 20
        return (v & -v).bit_length() - 1
    if isinstance(v, SInt):
        return v.tz
    return 0

def mk_bool(t):
    if isinstance(t, bool):
        return t
    if z3.is_true(t):
        return True
    if z3.is_false(t):
        return False
    return SBool(t)

def mk_real(t):
    return SReal(t)

def simp(t):
    return z3.simplify(t)

def int_term(v):
    """z3 Int term for an int-like value, or None."""
    if isinstance(v, bool):
        return z3.IntVal(1 if v else 0)
    if isinstance(v, int):
        return z3.IntVal(v)
    if isinstance(v, SInt):
        return v.t
    if isinstance(v, SBool):
        return z3.If(v.t, z3.IntVal(1), z3.IntVal(0))
    return None

def real_term(v):
    if isinstance(v, SReal):
        return v.t
    if isinstance(v, bool):
        return z3.RealVal(1 if v else 0)
    if isinstance(v, int):
        return z3.RealVal(v)
    if isinstance(v, float):
        if v != v or v in (float('inf'), float('-inf')):
            raise Unsupported("non-finite float in real arithmetic")
        return z3.RealVal(repr(v)) if False else z3.RealVal(_float_to_fraction_str(v))
    if isinstance(v, (SInt, SBool)):
        return z3.ToReal(int_term(v))
    return None

def _float_to_fraction_str(v):
    """a float constant read as the real number its shortest decimal repr
    denotes (floats are modelled as mathematical reals anyway)"""
    from fractions import Fraction
    if v.is_integer():
        return "%d/1" % int(v)           # integral floats (thresholds such as the binary32 overflow bound) exactly
    f = Fraction(repr(v))
    return "%d/%d" % (f.numerator, f.denominator)

def bool_term(v):
    if isinstance(v, bool):
        return z3.BoolVal(v)
    if isinstance(v, SBool):
        return v.t
    return None

def is_intlike(v):
    return isinstance(v, (int, SInt, SBool))   # bool is an int

def is_reallike(v):
    return isinstance(v, (float, SReal))

def bits_of(v):
    """possible-bits mask of a non-negative int-like value, or None."""
    if isinstance(v, bool):
        return 1 if v else 0
    if isinstance(v, int):
        return v if v >= 0 else None
    if isinstance(v, SInt):
        return v.bits
    if isinstance(v, SBool):
        return 1
    return None

def _mask_upto(m):
    """smallest 2^k-1 >= m"""
    return (1 << m.bit_length()) - 1

# ----------------------------------------------------------------------------
#   integer operators with Python semantics
# ----------------------------------------------------------------------------

def py_floordiv_term(a, b):
    """Python floor division on z3 ints (b != 0 assumed by the caller)."""
    if z3.is_int_value(b):
        bv = b.as_long()
        if bv > 0:
            return a / b            # z3 integer div is Euclidean == floor for b > 0
        else:
            return (-a) / z3.IntVal(-bv)
    return z3.If(b > 0, a / b, (-a) / (-b))

def py_mod_term(a, b):
    if z3.is_int_value(b):
        bv = b.as_long()
        if bv > 0:
            return a % b            # Euclidean mod: 0 <= r < b  == Python for b > 0
        else:
            return -((-a) % z3.IntVal(-bv))
    return z3.If(b > 0, a % b, -((-a) % (-b)))

def and_const_term(a, m):
    """a & m for a constant m >= 0, arithmetically (exact for all ints a)."""
    # split m into maximal runs of set bits
    terms = []
    lo = 0
    while m >> lo:
        if (m >> lo) & 1:
            hi = lo
            while (m >> hi) & 1:
                hi += 1
            # bits lo..hi-1
            part = (a / z3.IntVal(1 << lo)) % z3.IntVal(1 << (hi - lo)) if lo else a % z3.IntVal(1 << hi)
            if lo:
                part = part * z3.IntVal(1 << lo)
            terms.append(part)
            lo = hi
        else:
            lo += 1
    if not terms:
        return z3.IntVal(0)
    r = terms[0]
    for t in terms[1:]:
        r = r + t
    return r

_bv_width_limit = 72

def _bv_binop(opname, a, b, width):
    """bit-vector fallback for & | ^ on non-negative values below 2**width."""
    abv = z3.Int2BV(a, width)
    bbv = z3.Int2BV(b, width)
    if opname == '&':
        r = abv & bbv
    elif opname == '|':
        r = abv | bbv
    else:
        r = abv ^ bbv
    return z3.BV2Int(r, is_signed=False)

def int_bitop(opname, x, y):
    """x op y for op in & | ^ with at least one symbolic operand."""
    bx, by = bits_of(x), bits_of(y)
    tx, ty = int_term(x), int_term(y)
    # a negative constant c: x & c == x - (x & ~c);  x | c == c + (x & ~c)   (~c >= 0; exact for all ints x)
    for (u, v) in ((x, y), (y, x)):
        if isinstance(v, int) and not isinstance(v, bool) and v < 0 and isinstance(u, (SInt, SBool)):
            bu = bits_of(u)
            if opname == '&' and bu is not None:
                # u is known to lie in [0, 2**W): only the low W bits of the constant matter
                m = v & ((1 << bu.bit_length()) - 1)
                return int_bitop('&', u, m) if m else 0
            low = int_bitop('&', u, ~v) if ~v != 0 else 0
            tl = int_term(low)
            if opname == '&':
                return mk_int(z3.simplify(int_term(u) - tl))
            if opname == '|':
                r = mk_int(z3.simplify(z3.IntVal(v) + tl))
                if isinstance(r, SInt):
                    r.aux = ('orneg', u, v)
                return r
            raise Unsupported("^ with a negative constant")
    if opname == '&':
        # (u | c) & m == (u & m) | (c & m)  for a negative constant c and a non-negative constant mask m
        for (u, v) in ((x, y), (y, x)):
            if isinstance(u, SInt) and u.aux is not None and u.aux[0] == 'orneg' and isinstance(v, int) and not isinstance(v, bool) and v >= 0:
                left = int_bitop('&', u.aux[1], v) if isinstance(u.aux[1], Sym) else (u.aux[1] & v)
                right = u.aux[2] & v
                if isinstance(left, int):
                    return left | right
                return int_bitop('|', left, right) if right else left
        from . import bitfield as _bf
        r = _bf.try_binop('&', x, y)
        if r is not None:
            return r
        # constant non-negative mask on either side: exact arithmetic encoding
        for (u, tu, bu, v, tv, bv) in ((x, tx, bx, y, ty, by), (y, ty, by, x, tx, bx)):
            if isinstance(v, int) and not isinstance(v, bool) and v >= 0:
                nb = v if bu is None else (bu & v)
                if bu is not None and (bu & ~v) == 0:
                    return mk_int(tu, bu)         # mask keeps everything
                return mk_int(and_const_term(tu, v), nb)
        if bx is not None and by is not None:
            if bx & by == 0:
                return 0
            w = max(bx.bit_length(), by.bit_length())
            if w <= _bv_width_limit:
                return mk_int(_bv_binop('&', tx, ty, w), bx & by)
        raise Unsupported("& on unbounded symbolic operands")
    if opname == '|':
        from . import bitfield as _bf
        r = _bf.try_binop('|', x, y)
        if r is not None:
            return r
    if opname in ('|', '^'):
        # one side has its low k bits clear (any sign), the other fits in k bits: no overlap
        for (u, bu, v, bv) in ((x, bx, y, by), (y, by, x, bx)):
            if bv is not None and bv < (1 << min(tz_of(u), 4096)):
                return mk_int(tx + ty, (bx | by) if (bx is not None and by is not None) else None, min(tz_of(x), tz_of(y)))
        if bx is not None and by is not None:
            if bx & by == 0:
                return mk_int(tx + ty, bx | by)   # disjoint bits: no carries
            w = max(bx.bit_length(), by.bit_length())
            if w <= _bv_width_limit:
                return mk_int(_bv_binop(opname, tx, ty, w), bx | by)
        raise Unsupported("%s on operands without known bit ranges" % opname)
    raise Unsupported(opname)

# ----------------------------------------------------------------------------
#   byte buffers
# ----------------------------------------------------------------------------

class Blob(object):
    """opaque run of octets: bytes arr[off], ..., arr[off+n-1]"""
    __slots__ = ('arr', 'off', 'n')
    def __init__(self, arr, off, n):
        self.arr = arr
        self.off = off      # int or z3 int term
        self.n = n          # int or z3 int term
    def __repr__(self):
        return "Blob(%s,%s,%s)" % (self.arr, self.off, self.n)

def _t(v):
    return z3.IntVal(v) if isinstance(v, int) else v

def _fold(t):
    if isinstance(t, int):
        return t
    t = z3.simplify(t)
    if z3.is_int_value(t):
        return t.as_long()
    return t

def _add(a, b):
    if isinstance(a, int) and isinstance(b, int):
        return a + b
    return _fold(_t(a) + _t(b))

def _sub(a, b):
    if isinstance(a, int) and isinstance(b, int):
        return a - b
    return _fold(_t(a) - _t(b))

class SBuf(Sym):
    """bytes (mutable=False) or bytearray (mutable=True); chunks are SInt-like
    octets (python int or z3 int term) or Blob instances."""
    __slots__ = ('chunks', 'mutable')

    def __init__(self, chunks=None, mutable=False):
        self.chunks = list(chunks) if chunks else []
        self.mutable = mutable

    def __repr__(self):
        return "SBuf(%s%r)" % ('bytearray ' if self.mutable else '', self.chunks)

    @staticmethod
    def from_bytes(b, mutable=None):
        if mutable is None:
            mutable = isinstance(b, bytearray)
        return SBuf([int(x) for x in b], mutable)

    def copy(self, mutable=None):
        return SBuf(self.chunks, self.mutable if mutable is None else mutable)

    def all_octets(self):
        return all(not isinstance(c, Blob) for c in self.chunks)

    def length(self):
        n = 0
        for c in self.chunks:
            n = _add(n, c.n if isinstance(c, Blob) else 1)
        return n

    def is_concrete(self):
        return all(isinstance(c, int) for c in self.chunks)

    def to_bytes(self):
        assert self.is_concrete()
        return (bytearray if self.mutable else bytes)(self.chunks)

def buf_of(v):
    """view a concrete bytes/bytearray or SBuf as SBuf (no copy for SBuf)."""
    if isinstance(v, SBuf):
        return v
    if isinstance(v, (bytes, bytearray)):
        return SBuf.from_bytes(v)
    return None

def is_buflike(v):
    return isinstance(v, (SBuf, bytes, bytearray))

# ----------------------------------------------------------------------------
#   path context
# ----------------------------------------------------------------------------

def cvc5_check(assertions, seconds):
    """'unsat' / 'sat' / 'unknown' from /usr/bin/cvc5 on the conjunction"""
    import subprocess, tempfile, os
    try:
        s2 = z3.Solver()
        s2.add(assertions)
        text = "(set-logic ALL)\n" + s2.to_smt2()
    except Exception:
        return 'unknown'
    fn = None
    try:
        with tempfile.NamedTemporaryFile('w', suffix='.smt2', delete=False) as f:
            f.write(text)
            fn = f.name
        p = subprocess.run(['/usr/bin/cvc5', '--tlimit=%d' % (seconds * 1000), fn], capture_output=True, text=True, timeout=seconds + 5)
        out = p.stdout.strip().splitlines()
        return out[0] if out and out[0] in ('sat', 'unsat') else 'unknown'
    except Exception:
        return 'unknown'
    finally:
        if fn:
            try:
                os.unlink(fn)
            except OSError:
                pass

class Obligation(object):
    __slots__ = ('name', 'status', 'model', 'detail', 'solver_s', 'backend', 'path', 'inputs', 'size')
    def __init__(self, name, status, model=None, detail=None, solver_s=0.0, backend='z3', path=None, inputs=None, size=0):
        self.name = name
        self.status = status      # 'proved' | 'refuted' | 'unknown'
        self.model = model
        self.detail = detail
        self.solver_s = solver_s
        self.backend = backend
        self.path = path
        self.inputs = inputs
        self.size = size

class PathCtx(object):

    def __init__(self, prefix=(), rlimit=20000000, timeout_ms=60000, max_decisions=400):
        self.solver = z3.Solver()
        self.timeout_ms = timeout_ms
        self.solver.set('timeout', timeout_ms)
        self.solver.set('rlimit', rlimit)
        self.prefix = list(prefix)
        self.decisions = []          # bools taken so far
        self.alternatives = []       # prefixes still to explore
        self.obligations = []
        self.names = {}
        self.inputs = {}             # name -> z3 term (for models / replay)
        self.choices = {}            # name -> index chosen by shapes
        self.imprecise = []          # reasons this path's verdicts may be spurious
        self.max_decisions = max_decisions
        self.trace = {}              # ghost traces: channel -> list
        self.assumptions = set()     # names of trusted axioms touched
        self.notes = []
        self.solver_time = 0.0
        self.checks = 0
        self.facts = []              # axioms added to PC (type facts), for reporting
        self.labels = []             # human-readable branch labels
        self.decided = {}            # term id -> (term, choice) already decided on this path

    # -- naming -------------------------------------------------------------

    def uname(self, base):
        k = self.names.get(base, 0)
        self.names[base] = k + 1
        return base if k == 0 else "%s~%d" % (base, k)

    def fresh_int(self, base, lo=None, hi=None, is_input=False):
        name = self.uname(base)
        t = z3.Int(name)
        if lo is not None:
            self.solver.add(t >= lo)
        if hi is not None:
            self.solver.add(t <= hi)
        if is_input:
            self.inputs[name] = t
        bits = None
        if lo is not None and lo >= 0 and hi is not None:
            bits = _mask_upto(hi)
        return SInt(t, bits)

    def fresh_bool(self, base, is_input=False):
        name = self.uname(base)
        t = z3.Bool(name)
        if is_input:
            self.inputs[name] = t
        return SBool(t)

    def fresh_real(self, base, is_input=False):
        name = self.uname(base)
        t = z3.Real(name)
        if is_input:
            self.inputs[name] = t
        return SReal(t)

    def fresh_blob(self, base, minlen=0, maxlen=None, is_input=False, mutable=False):
        name = self.uname(base)
        arr = z3.Array(name, z3.IntSort(), z3.IntSort())
        n = z3.Int(name + '#len')
        self.solver.add(n >= minlen)
        if maxlen is not None:
            self.solver.add(n <= maxlen)
        if is_input:
            self.inputs[name + '#len'] = n
            self.inputs[name] = arr
        return SBuf([Blob(arr, 0, n)], mutable)

    # -- solver -------------------------------------------------------------

    def _check(self, *extra):
        import time
        t0 = time.time()
        r = self.solver.check(*extra)
        self.solver_time += time.time() - t0
        self.checks += 1
        return r

    def assume(self, t, check=True):
        """add a fact to the path condition"""
        if isinstance(t, bool):
            if not t:
                raise Infeasible()
            return
        if isinstance(t, SBool):
            t = t.t
        t = z3.simplify(t)
        if z3.is_true(t):
            return
        if z3.is_false(t):
            raise Infeasible()
        self.solver.add(t)
        if check:
            r = self._check()
            if r == z3.unsat:
                raise Infeasible()
            if r == z3.unknown:
                self.imprecise.append("assume: solver unknown")

    def fact(self, t):
        """type-level fact (e.g. an octet is 0..255): no feasibility check"""
        self.solver.add(t)

    def valid(self, t):
        """does the path condition imply t?  (False on unknown)"""
        if isinstance(t, bool):
            return t
        if isinstance(t, SBool):
            t = t.t
        t = z3.simplify(t)
        if z3.is_true(t):
            return True
        if z3.is_false(t):
            return False
        return self._check(z3.Not(t)) == z3.unsat

    def unique_value(self, t):
        """the integer t must equal under the path condition, or None"""
        if isinstance(t, int):
            return t
        if z3.is_int_value(t):
            return t.as_long()
        if self._check() != z3.sat:
            return None
        v = self.solver.model().eval(t, model_completion=True)
        if not z3.is_int_value(v):
            return None
        if self._check(t != v) == z3.unsat:
            return v.as_long()
        return None

    def decide(self, t, label=None):
        """branch on a boolean: returns the Python bool taken on this path"""
        if isinstance(t, bool):
            return t
        if isinstance(t, SBool):
            t = t.t
        t = z3.simplify(t)
        if z3.is_true(t):
            return True
        if z3.is_false(t):
            return False
        key = t.get_id()
        hit = self.decided.get(key)
        if hit is not None and hit[0].eq(t):
            return hit[1]
        r = self._decide(t)
        self.decided[key] = (t, r)
        return r

    def _decide(self, t):
        k = len(self.decisions)
        if k < len(self.prefix):
            choice = self.prefix[k]
            self.decisions.append(choice)
            self.solver.add(t if choice else z3.Not(t))
            return choice
        if k >= self.max_decisions:
            raise PathBudget("more than %d decisions on one path" % self.max_decisions)
        self.solver.set('timeout', min(self.timeout_ms, 10000))
        rt = self._check(t)
        if rt == z3.unsat:
            # the path condition is satisfiable (invariant), so not-t is feasible
            rf = z3.sat
        else:
            rf = self._check(z3.Not(t))
        self.solver.set('timeout', self.timeout_ms)
        if rt == z3.unknown and cvc5_check(list(self.solver.assertions()) + [t], 10) == 'unsat':
            rt = z3.unsat
        if rf == z3.unknown and cvc5_check(list(self.solver.assertions()) + [z3.Not(t)], 10) == 'unsat':
            rf = z3.unsat
        if rt == z3.unknown or rf == z3.unknown:
            self.imprecise.append("decide: solver unknown")
        can_t = rt != z3.unsat
        can_f = rf != z3.unsat
        if can_t and can_f:
            self.alternatives.append(self.decisions + [False])
            choice = True
        elif can_t:
            choice = True
        elif can_f:
            choice = False
        else:
            raise Infeasible()
        self.decisions.append(choice)
        self.solver.add(t if choice else z3.Not(t))
        return choice

    def choose(self, n, label=None):
        """n-way choice, encoded as binary decisions on fresh booleans"""
        for i in range(n - 1):
            b = z3.Bool(self.uname("choice!%s!%d" % (label or '', i)))
            if self.decide(b):
                return i
        return n - 1

    # -- obligations --------------------------------------------------------

    def oblige(self, name, t, detail=None):
        """record the proof obligation PC => t; afterwards t is assumed"""
        import time
        if isinstance(t, SBool):
            t = t.t
        if isinstance(t, bool):
            t = z3.BoolVal(t)
        ts = z3.simplify(t)
        if z3.is_true(ts):
            self.obligations.append(Obligation(name, 'proved', detail=detail, path=list(self.decisions), size=0))
            return True
        t0 = time.time()
        backend = 'z3'
        # a short z3 attempt first; cvc5 takes what z3 leaves open; then z3 with the full budget
        self.solver.set('timeout', min(self.timeout_ms, 4000))
        r = self._check(z3.Not(t))
        self.solver.set('timeout', self.timeout_ms)
        if r == z3.unknown:
            c5 = cvc5_check(list(self.solver.assertions()) + [z3.Not(t)], 30)
            if c5 == 'unsat':
                r = z3.unsat
                backend = 'cvc5'
            else:
                r = self._check(z3.Not(t))
        dt = time.time() - t0
        size = len(self.solver.assertions())
        if r == z3.unsat:
            self.obligations.append(Obligation(name, 'proved', detail=detail, solver_s=dt, path=list(self.decisions), size=size, backend=backend))
            return True
        if r == z3.sat:
            m = self.solver.model()
            ob = Obligation(name, 'refuted', model=m, detail=detail, solver_s=dt, path=list(self.decisions), size=size)
            ob.inputs = self.extract_inputs(m)
            if self.imprecise:
                ob.detail = (detail or '') + ' [imprecise path: %s]' % '; '.join(self.imprecise)
            self.obligations.append(ob)
        else:
            smt = None
            try:
                s2 = z3.Solver()
                s2.add(self.solver.assertions())
                s2.add(z3.Not(t))
                smt = s2.to_smt2()
            except Exception:
                pass
            ob = Obligation(name, 'unknown', detail=(detail or '') + ' reason=' + self.solver.reason_unknown(), solver_s=dt, path=list(self.decisions), size=size)
            ob.model = smt   # SMT-LIB text for the second solver
            self.obligations.append(ob)
        # continue under the assumption, if possible
        try:
            self.assume(t)
        except Infeasible:
            raise
        return False

    def extract_inputs(self, m):
        out = {}
        for name, term in self.inputs.items():
            if name.endswith('#len'):
                continue
            if z3.is_array(term):
                ln = self.inputs.get(name + '#len')
                n = m.eval(ln, model_completion=True).as_long() if ln is not None else 0
                n = max(0, min(n, 200000))
                vals = []
                for i in range(n):
                    v = m.eval(z3.Select(term, i), model_completion=True)
                    vals.append(v.as_long() & 0xFF if z3.is_int_value(v) else 0)
                out[name] = {'bytes': vals}
            else:
                v = m.eval(term, model_completion=True)
                if z3.is_int_value(v):
                    out[name] = v.as_long()
                elif z3.is_true(v):
                    out[name] = True
                elif z3.is_false(v):
                    out[name] = False
                elif z3.is_rational_value(v):
                    out[name] = {'real': [v.numerator_as_long(), v.denominator_as_long()]}
                else:
                    out[name] = {'term': str(v)}
        for name, idx in self.choices.items():
            out[name] = {'choice': idx}
        return out


# ----------------------------------------------------------------------------
#   exploration by re-execution
# ----------------------------------------------------------------------------

class ExploreResult(object):
    def __init__(self):
        self.paths = 0
        self.completed = 0       # paths that ran to the end
        self.infeasible = 0
        self.obligations = []
        self.unsupported = []    # (path, message)
        self.budget = []         # budget overruns
        self.solver_time = 0.0
        self.checks = 0
        self.assumptions = set()
        self.notes = []
        self.outcomes = {}       # label -> count (normal / raises X)

def explore(program, max_paths=4000, **ctxargs):
    """Run program(ctx) along every feasible path.  program may raise
    Infeasible (path pruned), Unsupported (recorded), PathBudget."""
    res = ExploreResult()
    work = [[]]
    while work:
        prefix = work.pop()
        if res.paths >= max_paths:
            res.budget.append("more than %d paths" % max_paths)
            break
        res.paths += 1
        from . import bitfield as _bf
        _bf.REG.clear()
        ctx = PathCtx(prefix, **ctxargs)
        try:
            label = program(ctx)
            res.completed += 1
            if label is not None:
                res.outcomes[label] = res.outcomes.get(label, 0) + 1
        except Infeasible:
            res.infeasible += 1
        except Unsupported as e:
            res.unsupported.append((list(ctx.decisions), str(e)))
        except PathBudget as e:
            res.budget.append(str(e))
        res.obligations.extend(ctx.obligations)
        res.solver_time += ctx.solver_time
        res.checks += ctx.checks
        res.assumptions |= ctx.assumptions
        res.notes.extend(ctx.notes)
        work.extend(ctx.alternatives)
    return res
