"""
pyvc.runner -- run one property's plan: verify every function under contract
against its real body, every lemma against the contracts, replay refutations
natively, cross-check the interpreter against CPython, run the bounded stage,
apply the known-findings file, write evidence, decide the exit code.

exit 0  every obligation discharged (or only listed known findings remain)
exit 1  an obligation refuted: VIOLATION line (replayed input when there is one)
exit 0  with UNDECIDED lines when the proof stage is undecided and the bounded
        stage finds nothing (evidence level downgraded for the run)
exit 3  checker error (crash, interpreter/CPython disagreement, vacuity)
"""

import argparse
import importlib
import json
import multiprocessing
import os
import random
import re
import signal
import subprocess
import sys
import tempfile
import time
import traceback

VERIF = os.path.dirname(os.path.dirname(os.path.abspath(__file__)))

def repo_root():
    return os.path.join(os.environ.get('BACPYPES_REPO', '/repo'), 'py34')

def setup_paths():
    rr = repo_root()
    for p in (VERIF, rr):
        if p in sys.path:
            sys.path.remove(p)
    sys.path.insert(0, rr)
    sys.path.insert(0, VERIF)
    import bacpypes
    got = os.path.realpath(os.path.dirname(bacpypes.__file__))
    want = os.path.realpath(os.path.join(rr, 'bacpypes'))
    if got != want:
        raise RuntimeError("bacpypes imported from %s, expected the working tree %s" % (got, want))

# ----------------------------------------------------------------------------

def _verify_worker(args):
    kind, name, rlimit, timeout_ms, max_paths = args
    from pyvc import contracts as C
    unit = C.LEMMAS[name] if kind == 'lemma' else C.REGISTRY[name]
    try:
        signal.alarm(0)
    except Exception:
        pass
    r = C.verify_unit(unit, repo_root(), VERIF, rlimit=rlimit, timeout_ms=timeout_ms, max_paths=max_paths)
    return r.to_json()

def _with_timeout(fn, seconds, *a, **kw):
    """run fn in a forked child with a wall-clock limit; returns (ok, value)"""
    rd, wr = os.pipe()
    pid = os.fork()
    if pid == 0:
        os.close(rd)
        try:
            v = fn(*a, **kw)
            data = json.dumps({'ok': True, 'value': v}, default=repr)
        except BaseException as e:
            data = json.dumps({'ok': False, 'value': "%r\n%s" % (e, traceback.format_exc())})
        with os.fdopen(wr, 'w') as f:
            f.write(data)
        os._exit(0)
    os.close(wr)
    t0 = time.time()
    chunks = []
    import select
    with os.fdopen(rd, 'r') as f:
        while True:
            left = seconds - (time.time() - t0)
            if left <= 0:
                try:
                    os.kill(pid, signal.SIGKILL)
                except Exception:
                    pass
                os.waitpid(pid, 0)
                return False, 'timeout after %ss' % seconds
            r, _, _ = select.select([f], [], [], min(left, 1.0))
            if r:
                d = f.read()
                chunks.append(d)
                break
    os.waitpid(pid, 0)
    try:
        out = json.loads(''.join(chunks))
    except Exception:
        return False, 'no result from child'
    return out['ok'], out['value']

def native_replay(kind, name, inputs):
    from pyvc import contracts as C
    unit = C.LEMMAS[name] if kind == 'lemma' else C.REGISTRY[name]
    status, failures, info = unit.native_check(inputs)
    return {'status': status, 'failures': failures, 'info': info}

def crosscheck_function(name, k, seed):
    """interpreter vs CPython on k random concrete inputs satisfying requires"""
    from pyvc import contracts as C
    from pyvc.crosscheck import crosscheck
    return crosscheck(C.REGISTRY[name], k, seed, repo_root(), VERIF)

def run_cvc5(smt2, seconds):
    if not smt2:
        return 'unknown'
    with tempfile.NamedTemporaryFile('w', suffix='.smt2', delete=False) as f:
        f.write("(set-logic ALL)\n" + smt2 if '(set-logic' not in smt2 else smt2)
        fn = f.name
    try:
        p = subprocess.run(['/usr/bin/cvc5', '--tlimit=%d' % (seconds * 1000), fn], capture_output=True, text=True, timeout=seconds + 5)
        out = p.stdout.strip().splitlines()
        return out[0] if out else 'unknown'
    except Exception:
        return 'unknown'
    finally:
        os.unlink(fn)

def sanitize(s):
    return re.sub(r'[^A-Za-z0-9_.-]+', '_', s)[:150]

# ----------------------------------------------------------------------------

def load_known_findings():
    fn = os.path.join(VERIF, 'known_findings.json')
    if not os.path.exists(fn):
        return []
    with open(fn) as f:
        return json.load(f).get('findings', [])

def main(argv=None):
    import logging
    logging.disable(logging.CRITICAL)       # the library logs handled exceptions of replayed inputs; they are not part of the verdict
    ap = argparse.ArgumentParser()
    ap.add_argument('prop')
    ap.add_argument('--tier', default=os.environ.get('VERIF_TIER', 'quick'), choices=['quick', 'thorough'])
    ap.add_argument('--replay', default=None)
    ap.add_argument('--jobs', type=int, default=int(os.environ.get('VERIF_JOBS', '16')))
    ap.add_argument('--only', default=None, help='substring filter on unit names (debugging; evidence not written)')
    ap.add_argument('-v', '--verbose', action='store_true')
    args = ap.parse_args(argv)
    seed = int(os.environ.get('VERIF_SEED', '0'))
    t_start = time.time()
    pid = args.prop

    os.environ['VERIF_TIER'] = args.tier
    try:
        setup_paths()
        plan = importlib.import_module('props.' + pid)
        for m in plan.MODULES:
            importlib.import_module(m)
        from pyvc import contracts as C
    except Exception as e:
        print("CHECKER-ERROR property=%s cannot load plan: %r" % (pid, e))
        traceback.print_exc()
        return 3

    if args.replay:
        return do_replay(pid, args.replay)

    # the extraction treats `if _debug:` with the module's real flag
    dbg = []
    for mn, mod in list(sys.modules.items()):
        if mn.startswith('bacpypes') and getattr(mod, '_debug', 0):
            dbg.append(mn)
    if dbg:
        print("CHECKER-ERROR property=%s modules with _debug != 0: %s" % (pid, dbg))
        return 3

    os.environ['VERIF_TIER'] = args.tier
    thorough = args.tier == 'thorough'
    rlimit = 240000000 if thorough else 40000000
    timeout_ms = 600000 if thorough else 120000
    max_paths = 40000 if thorough else 8000

    # known findings: carve only those whose witness still reproduces natively
    kfs = [k for k in load_known_findings() if k.get('property') == pid and not k.get('fixed')]
    kf_lines = []
    active_kf = []
    for k in kfs:
        if k.get('bounded'):
            continue        # a finding of the bounded stage: matched by the failure it names (k['match']) when that stage reports it
        unit = C.LEMMAS.get(k['unit']) or C.REGISTRY.get(k['unit'])
        if unit is None:
            print("CHECKER-ERROR property=%s known finding %s names unknown unit %s" % (pid, k['id'], k['unit']))
            return 3
        kind = 'lemma' if k['unit'] in C.LEMMAS else 'function'
        ok, val = _with_timeout(native_replay, 60, kind, k['unit'], k['witness'])
        if ok and val['status'] == 'violated':
            active_kf.append(k)
            unit.known = getattr(unit, 'known', []) + [k]
            kf_lines.append("KNOWN-FINDING: property=%s %s: %s" % (pid, k['id'], k['what']))
        else:
            print("NOTE known finding %s no longer reproduces on this tree (%s); its region is verified like the rest" % (k['id'], val if not ok else val['status']))

    units = []
    for name in plan.FUNCTIONS:
        if name not in C.REGISTRY:
            print("CHECKER-ERROR property=%s plan names unknown contract %s" % (pid, name))
            return 3
        units.append(('function', name))
    for name in plan.LEMMAS:
        if name not in C.LEMMAS:
            print("CHECKER-ERROR property=%s plan names unknown lemma %s" % (pid, name))
            return 3
        units.append(('lemma', name))
    if args.only:
        units = [u for u in units if args.only in u[1]]

    # resolve every target now: a vanished function is a shape mismatch, not a pass
    missing = []
    for kind, name in units:
        if kind == 'function':
            try:
                C.REGISTRY[name].func
            except Exception as e:
                missing.append((name, repr(e)))
    tasks = [(kind, name, rlimit, timeout_ms, max_paths) for kind, name in units if name not in [m[0] for m in missing]]
    results = {}
    with multiprocessing.get_context('fork').Pool(min(args.jobs, max(1, len(tasks)))) as pool:
        for r in pool.imap_unordered(_verify_worker, tasks):
            results[r['name']] = r
            if args.verbose:
                st = _unit_status(r)
                print("  [%s] %s paths=%d live=%d clauses=%d %.1fs" % (st, r['name'], r['paths'], r['live'], len(r['clauses']), r['wall_s']))

    # ---- triage ------------------------------------------------------------
    violations = []     # (obligation, unit, kind, replay path, confirmed)
    undecided = []
    errors = []
    obligations = 0
    discharged = 0
    by_backend = {'z3': 0, 'cvc5': 0, 'syntactic': 0}
    solver_s = 0.0
    path_queries = 0
    samples = []
    functions_under_contract = []
    trusted = set()
    inlined = set()
    assumptions = set()
    os.makedirs(os.path.join(VERIF, 'replays', pid), exist_ok=True)
    for kind, name in units:
        r = results.get(name)
        if r is None:
            miss = dict(missing).get(name)
            undecided.append("%s: target cannot be resolved (%s)" % (name, miss))
            continue
        if kind == 'function':
            functions_under_contract.append(name)
        solver_s += r['solver_s']
        inlined.update(r['inlined'])
        assumptions.update(r['assumptions'])
        if r['error']:
            errors.append("%s: %s" % (name, r['error'].splitlines()[0]))
            continue
        for u in r['unsupported']:
            undecided.append("%s: outside the encoded subset: %s" % (name, u))
        for b in r['budget']:
            undecided.append("%s: budget: %s" % (name, b))
        if not r['clauses'] and not r['unsupported']:
            errors.append("%s: generated zero obligations (vacuous)" % name)
        if r['live'] == 0 and not r['unsupported'] and not any(c['status'] == 'refuted' for c in r['clauses'].values()):
            errors.append("%s: no live path (contradictory requires?)" % name)
        for cname, c in sorted(r['clauses'].items()):
            obligations += 1
            path_queries += c['paths']
            if c['status'] == 'proved':
                discharged += 1
                by_backend['cvc5' if c.get('cvc5_paths') else ('z3' if c['solver_s'] > 0 else 'syntactic')] += 1
                if len(samples) < 6 and c['max_size'] > 0:
                    samples.append({'obligation': cname, 'unit': name, 'paths': c['paths'], 'backend': 'z3',
                                    'result': 'unsat on every path', 'solver_s': round(c['solver_s'], 4),
                                    'assertions_in_largest_query': c['max_size']})
            elif c['status'] == 'unknown':
                allun = True
                for f in c['failures']:
                    if run_cvc5(f.get('smt2'), 60 if thorough else 20) != 'unsat':
                        allun = False
                        break
                if allun and c['failures'] and len(c['failures']) >= 1 and c['paths'] <= 3:
                    discharged += 1
                    by_backend['cvc5'] += 1
                else:
                    undecided.append("%s: solver returned unknown (%s)" % (cname, c['failures'][0].get('detail') if c['failures'] else ''))
            else:
                f = c['failures'][0]
                ok, val = _with_timeout(native_replay, 120, kind, name, f['inputs'] or {})
                confirmed = bool(ok and val['status'] == 'violated')
                rp = os.path.join('replays', pid, sanitize(cname) + '.json')
                with open(os.path.join(VERIF, rp), 'w') as fh:
                    json.dump({'property': pid, 'obligation': cname, 'unit': name, 'kind': kind,
                               'inputs': f['inputs'], 'verifier_detail': f['detail'], 'path': f['path'],
                               'solver': 'z3: sat (counter-model above)', 'native_replay': val if ok else {'error': val},
                               'confirmed_on_real_code': confirmed}, fh, indent=1, default=repr)
                violations.append((cname, name, kind, rp, confirmed, val if ok else {'error': val}))

    # ---- interpreter cross-check against CPython ---------------------------
    cc_total = 0
    cc_disagree = []
    k = 40 if thorough else 12
    cc_tasks = [(name, k, seed) for kind, name in units if kind == 'function' and name in results and not results[name]['error']]
    if cc_tasks:
        with multiprocessing.get_context('fork').Pool(min(args.jobs, len(cc_tasks))) as pool:
            for out in pool.starmap(crosscheck_function, cc_tasks):
                cc_total += out['runs']
                cc_disagree.extend(out['disagreements'])
    for d in cc_disagree:
        errors.append("interpreter/CPython disagreement: %s" % d)

    # ---- bounded stage (never counted as proved) ----------------------------
    bounded = None
    bmod = getattr(plan, 'BOUNDED', None)
    if bmod and not args.only:
        try:
            bm = importlib.import_module(bmod)
            ok, val = _with_timeout(bm.run, 3600 if thorough else 600, args.tier, seed)
            if not ok:
                errors.append("bounded stage crashed: %s" % str(val).splitlines()[0])
            else:
                bounded = val
                seen_names = set()
                for fail in val.get('failures', []):
                    if fail['name'] in seen_names:
                        continue
                    seen_names.add(fail['name'])
                    kfid = fail.get('known_finding')
                    for k in kfs:
                        if k.get('bounded') and k.get('match') == fail['name']:
                            kfid = k['id']
                    if kfid and any(k['id'] == kfid for k in kfs):
                        line = "KNOWN-FINDING: property=%s %s: %s" % (pid, kfid, [k for k in kfs if k['id'] == kfid][0]['what'])
                        if line not in kf_lines:
                            kf_lines.append(line)
                        continue
                    rp = os.path.join('replays', pid, 'bounded_' + sanitize(fail['name']) + '.json')
                    with open(os.path.join(VERIF, rp), 'w') as fh:
                        json.dump({'property': pid, 'obligation': 'bounded/' + fail['name'], 'kind': 'bounded',
                                   'input': fail.get('input'), 'detail': fail.get('detail'), 'confirmed_on_real_code': True}, fh, indent=1, default=repr)
                    violations.append(('bounded/' + fail['name'], bmod, 'bounded', rp, True, fail.get('detail')))
        except Exception as e:
            errors.append("bounded stage: %r" % (e,))

    # proved-but-refuted tripwire
    min_obl = getattr(plan, 'MIN_OBLIGATIONS', 1)
    if not args.only and obligations < min_obl:
        errors.append("only %d obligations generated, the plan expects at least %d" % (obligations, min_obl))

    wall = time.time() - t_start
    # ---- evidence ----------------------------------------------------------
    level = getattr(plan, 'LEVEL', 'proof')
    if undecided and level == 'proof':
        level_run = 'other'
    else:
        level_run = level
    trusted_base = sorted(set(getattr(plan, 'TRUSTED', [])) | assumptions | {
        "pyvc: home-made VC generator (symbolic interpreter over the Python ast of the real source), mitigated by the CPython cross-check on every run",
        "z3 %s" % _z3_version(), "CPython semantics of the modelled subset (DESIGN 2.2)",
        "extraction drops `if _debug:` blocks and logging calls; exception messages are not modelled"})
    cov = {
        'obligations': obligations,
        'discharged': discharged,
        'checker_cmd': "./check %s --tier %s" % (pid, args.tier),
        'trusted_base': trusted_base,
        'functions_under_contract': functions_under_contract,
        'lemmas': [n for kd, n in units if kd == 'lemma'],
        'path_queries': path_queries,
        'discharged_by_backend': by_backend,
        'solver_s': round(solver_s, 2),
        'samples': samples or [{'note': 'no non-trivial obligation sample'}],
        'inlined_without_own_contract': sorted(inlined),
        'undecided': undecided,
        'crosscheck': {'runs': cc_total, 'disagreements': len(cc_disagree)},
        'bounded': bounded if bounded is None else {k_: v for k_, v in bounded.items() if k_ != 'failures'},
        'known_findings': [k['id'] for k in active_kf],
        'not_decided': getattr(plan, 'NOT_DECIDED', []),
        'explanation': getattr(plan, 'EXPLANATION', ''),
        'vacuity': {'units': len(units), 'units_with_live_paths': sum(1 for r in results.values() if r['live'] > 0)},
        'per_unit': {n: {'status': _unit_status(r), 'paths': r['paths'], 'live': r['live'], 'outcomes': r['outcomes'],
                         'clauses': len(r['clauses']), 'wall_s': round(r['wall_s'], 2), 'uses_contracts': r['used_contracts']}
                     for n, r in sorted(results.items())},
    }
    if bounded:
        cov['evaluations'] = bounded.get('evaluations', 0)
        cov['distinct_nontrivial'] = bounded.get('distinct_nontrivial', 0)
        cov['rule'] = bounded.get('rule', '')
    ev = {
        'property_id': pid, 'tier': args.tier, 'seed': seed, 'level': level_run,
        'coverage': cov,
        'assumptions': sorted(set(getattr(plan, 'ASSUMPTIONS', [])) | assumptions),
        'wall_s': round(wall, 2),
        'violations': len(violations),
    }
    if not args.only and not os.environ.get('VERIF_NO_EVIDENCE'):
        os.makedirs(os.path.join(VERIF, 'evidence'), exist_ok=True)
        with open(os.path.join(VERIF, 'evidence', pid + '.json'), 'w') as f:
            json.dump(ev, f, indent=1, default=repr)

    # ---- verdict -----------------------------------------------------------
    print("property %s tier=%s: %d obligations, %d discharged, %d path queries, %d units, solver %.1fs, wall %.1fs" % (
        pid, args.tier, obligations, discharged, path_queries, len(units), solver_s, wall))
    for line in kf_lines:
        print(line)
    for u in undecided:
        print("UNDECIDED property=%s %s" % (pid, u))
    if errors:
        for e in errors:
            print("CHECKER-ERROR property=%s %s" % (pid, e))
        return 3
    if violations:
        for (cname, name, kind, rp, confirmed, val) in violations:
            print("VIOLATION property=%s replay=%s obligation=%s%s" % (pid, rp, cname.replace(' ', '_'), '' if confirmed else ' no-failing-input-found'))
            if args.verbose:
                print("    ", val)
        return 1
    return 0

def _unit_status(r):
    if r['error']:
        return 'error'
    if r['unsupported'] or r['budget']:
        return 'undecided'
    st = [c['status'] for c in r['clauses'].values()]
    if 'refuted' in st:
        return 'refuted'
    if 'unknown' in st:
        return 'undecided'
    return 'proved'

def _z3_version():
    import z3
    return z3.get_version_string()

def do_replay(pid, path):
    from pyvc import contracts as C
    with open(path if os.path.isabs(path) else os.path.join(VERIF, path)) as f:
        rep = json.load(f)
    if rep.get('kind') == 'bounded':
        print("bounded-stage finding: %s" % rep.get('detail'))
        print("input: %s" % (rep.get('input'),))
        return 1
    ok, val = _with_timeout(native_replay, 120, rep['kind'], rep['unit'], rep['inputs'] or {})
    print("replay of %s on the real code under CPython:" % rep['obligation'])
    print(json.dumps(val, indent=1, default=repr) if ok else val)
    if ok and val['status'] == 'violated':
        print("VIOLATION property=%s replay=%s" % (pid, path))
        return 1
    return 0
