#!/bin/sh
# usage: [MUT_REPO=/path/to/scratch/clone] tools_run_all_mutants.sh [ids...]
# applies each seeded change in turn (to /repo, or to the scratch clone named by MUT_REPO), runs the quick check of its property,
# records what the check reported in seeded/<id>/detected.txt; always reverts the tree it patched
cd /verif
R=${MUT_REPO:-/repo}
ids="$@"
[ -z "$ids" ] && ids=$(ls seeded)
for m in $ids; do
  prop=$(echo $m | cut -d_ -f1)
  patch=seeded/$m/patch.diff
  [ -f seeded/$m/patch_on_fixed_tree.diff ] && patch=seeded/$m/patch_on_fixed_tree.diff
  if ! git -C $R apply --check /verif/$patch 2>/dev/null; then
    echo "patch does not apply to the current (repaired) tree" > seeded/$m/detected.txt
    echo "$m DOES-NOT-APPLY"; continue
  fi
  git -C $R apply /verif/$patch
  BACPYPES_REPO=$R VERIF_NO_EVIDENCE=1 timeout 2400 ./check $prop > /tmp/mut_$m.log 2>&1; rc=$?
  git -C $R checkout -- .
  grep -E "^(VIOLATION|KNOWN-FINDING|CHECKER-ERROR|UNDECIDED)" /tmp/mut_$m.log | cut -c1-500 > seeded/$m/detected.txt
  echo "exit=$rc" >> seeded/$m/detected.txt
  echo "$m $(grep -c '^VIOLATION' seeded/$m/detected.txt) violation lines, exit=$rc"
  rm -f /tmp/mut_$m.log
done
git -C $R status --short | head -3
